//! C11: built-in validators accept exactly what the property states.  Real jiff::Timestamp
//! comparison and `Timestamp ± Duration` arithmetic are executed; the oracle is a lexicographic
//! (seconds, nanoseconds) comparison with explicit borrow/carry — no multiplication or division.
use paseto_json::jiff::Timestamp;
use paseto_json::{ForAudience, ForSubject, FromIssuer, HasExpiry, RegisteredClaims, Time, Validate};
use std::time::Duration;

/// jiff builds its (here unreachable) overflow errors with `format!`; formatting integers is a text
/// loop that stalls symbolic execution, so `alloc::fmt::format` is stubbed by an empty-string version
/// in the harnesses that go through `Timestamp ± Duration` (formatting is not the subject there)
pub fn format_stub(_args: core::fmt::Arguments<'_>) -> String {
    String::new()
}

const RANGE: i64 = 1 << 36; // ±2177 years, inside jiff's range
fn ts(s: i64, n: i32) -> Timestamp {
    kani::assume(s > -RANGE && s < RANGE);
    kani::assume(n >= 0 && n < 1_000_000_000);
    Timestamp::new(s, n).unwrap()
}
fn ge(a: (i64, i32), b: (i64, i32)) -> bool {
    a.0 > b.0 || (a.0 == b.0 && a.1 >= b.1)
}
fn ok(r: Result<(), paseto_core::PasetoError>) -> bool {
    let o = r.is_ok();
    if let Err(e) = &r {
        assert!(matches!(e, paseto_core::PasetoError::ClaimsError));
    }
    core::mem::forget(r);
    o
}

#[kani::proof]
#[kani::unwind(4)]
pub fn time_exact() {
    let (es, en, ns_, nn, ws, wn): (i64, i32, i64, i32, i64, i32) = kani::any();
    let has_exp: bool = kani::any();
    let has_nbf: bool = kani::any();
    let (exp, nbf, now) = (ts(es, en), ts(ns_, nn), ts(ws, wn));
    let mut c = RegisteredClaims::default();
    if has_exp {
        c.exp = Some(exp);
    }
    if has_nbf {
        c.nbf = Some(nbf);
    }
    // iat and the string claims must not matter
    if kani::any() {
        c.iat = Some(ts(kani::any(), kani::any()));
    }
    let got = ok(Time::valid_at(now).validate(&c));
    let want = (!has_exp || ge((es, en), (ws, wn))) && (!has_nbf || ge((ws, wn), (ns_, nn)));
    assert!(got == want);
    kani::cover!(got && has_exp && has_nbf);
    kani::cover!(!got && has_exp && es == ws && en + 1 == wn, "expired by one nanosecond");
    kani::cover!(got && has_exp && es == ws && en == wn, "exp == now accepted");
}

/// now - l and now + l as (sec, ns) pairs with explicit borrow / carry
fn minus(a: (i64, i32), l: (u64, u32)) -> (i64, i32) {
    let mut s = a.0 - l.0 as i64;
    let mut n = a.1 - l.1 as i32;
    if n < 0 {
        n += 1_000_000_000;
        s -= 1;
    }
    (s, n)
}
fn plus(a: (i64, i32), l: (u64, u32)) -> (i64, i32) {
    let mut s = a.0 + l.0 as i64;
    let mut n = a.1 + l.1 as i32;
    if n >= 1_000_000_000 {
        n -= 1_000_000_000;
        s += 1;
    }
    (s, n)
}

#[kani::proof]
#[kani::unwind(2)]
#[kani::stub(alloc::fmt::format, format_stub)]
pub fn time_leeway_exact_exp() {
    let (es, en, ws, wn): (i64, i32, i64, i32) = kani::any();
    let ls: u64 = kani::any();
    let ln: u32 = kani::any();
    kani::assume(ls < (1u64 << 30) && ln < 1_000_000_000);
    let (exp, now) = (ts(es, en), ts(ws, wn));
    let mut c = RegisteredClaims::default();
    c.exp = Some(exp);
    let v = Time::valid_at(now).with_leeway(Duration::new(ls, ln));
    let got = ok(v.validate(&c));
    let want = ge((es, en), minus((ws, wn), (ls, ln)));
    assert!(got == want);
    kani::cover!(got && es < ws, "accepted only thanks to the leeway");
    kani::cover!(!got);
}

/// narrower ranges of the two harnesses above (the full-range ones are thorough-tier):
/// timestamps within ±2^20 s of the epoch, leeway below 4 s with every nanosecond value
#[kani::proof]
#[kani::unwind(2)]
#[kani::stub(alloc::fmt::format, format_stub)]
pub fn time_leeway_narrow_exp() {
    let (es, en, ws, wn): (i64, i32, i64, i32) = kani::any();
    let ls: u64 = kani::any();
    let ln: u32 = kani::any();
    kani::assume(ls < 4 && ln < 1_000_000_000);
    kani::assume(es > -(1 << 20) && es < (1 << 20) && ws > -(1 << 20) && ws < (1 << 20));
    let (exp, now) = (ts(es, en), ts(ws, wn));
    let mut c = RegisteredClaims::default();
    c.exp = Some(exp);
    let v = Time::valid_at(now).with_leeway(Duration::new(ls, ln));
    let got = ok(v.validate(&c));
    let want = ge((es, en), minus((ws, wn), (ls, ln)));
    assert!(got == want);
    kani::cover!(got && (es < ws || (es == ws && en < wn)), "accepted only thanks to the leeway");
    kani::cover!(!got);
}
#[kani::proof]
#[kani::unwind(2)]
#[kani::stub(alloc::fmt::format, format_stub)]
pub fn time_leeway_narrow_nbf() {
    let (bs, bn, ws, wn): (i64, i32, i64, i32) = kani::any();
    let ls: u64 = kani::any();
    let ln: u32 = kani::any();
    kani::assume(ls < 4 && ln < 1_000_000_000);
    kani::assume(bs > -(1 << 20) && bs < (1 << 20) && ws > -(1 << 20) && ws < (1 << 20));
    let (nbf, now) = (ts(bs, bn), ts(ws, wn));
    let mut c = RegisteredClaims::default();
    c.nbf = Some(nbf);
    let v = Time::valid_at(now).with_leeway(Duration::new(ls, ln));
    let got = ok(v.validate(&c));
    let want = ge(plus((ws, wn), (ls, ln)), (bs, bn));
    assert!(got == want);
    kani::cover!(got && (bs > ws || (bs == ws && bn > wn)), "accepted only thanks to the leeway");
    kani::cover!(!got);
}

#[kani::proof]
#[kani::unwind(2)]
#[kani::stub(alloc::fmt::format, format_stub)]
pub fn time_leeway_exact_nbf() {
    let (bs, bn, ws, wn): (i64, i32, i64, i32) = kani::any();
    let ls: u64 = kani::any();
    let ln: u32 = kani::any();
    kani::assume(ls < (1u64 << 30) && ln < 1_000_000_000);
    let (nbf, now) = (ts(bs, bn), ts(ws, wn));
    let mut c = RegisteredClaims::default();
    c.nbf = Some(nbf);
    let v = Time::valid_at(now).with_leeway(Duration::new(ls, ln));
    let got = ok(v.validate(&c));
    let want = ge(plus((ws, wn), (ls, ln)), (bs, bn));
    assert!(got == want);
    kani::cover!(got && bs > ws, "accepted only thanks to the leeway");
    kani::cover!(!got);
}

#[kani::proof]
#[kani::unwind(2)]
#[kani::stub(alloc::fmt::format, format_stub)]
pub fn time_leeway_both_and_absent() {
    let (es, en, bs, bn, ws, wn): (i64, i32, i64, i32, i64, i32) = kani::any();
    let ls: u64 = kani::any();
    kani::assume(ls < (1u64 << 20));
    let has_exp: bool = kani::any();
    let has_nbf: bool = kani::any();
    let (exp, nbf, now) = (ts(es, en), ts(bs, bn), ts(ws, wn));
    let mut c = RegisteredClaims::default();
    if has_exp {
        c.exp = Some(exp);
    }
    if has_nbf {
        c.nbf = Some(nbf);
    }
    let v = Time::valid_at(now).with_leeway(Duration::new(ls, 0));
    let got = ok(v.validate(&c));
    let want = (!has_exp || ge((es, en), minus((ws, wn), (ls, 0)))) && (!has_nbf || ge(plus((ws, wn), (ls, 0)), (bs, bn)));
    assert!(got == want);
    kani::cover!(got && !has_exp && !has_nbf);
    kani::cover!(!got && has_exp && has_nbf);
}

#[kani::proof]
#[kani::unwind(4)]
pub fn has_expiry_exact() {
    let mut c = RegisteredClaims::default();
    let has: bool = kani::any();
    if has {
        c.exp = Some(ts(kani::any(), kani::any()));
    }
    if kani::any() {
        c.nbf = Some(ts(kani::any(), kani::any()));
    }
    assert!(ok(HasExpiry.validate(&c)) == has);
    kani::cover!(has);
    kani::cover!(!has);
}

fn sym_string<const N: usize>() -> String {
    let b: [u8; N] = kani::any();
    let mut v = Vec::with_capacity(4);
    let mut i = 0;
    while i < N {
        kani::assume(b[i] < 0x80);
        v.push(b[i]);
        i += 1;
    }
    unsafe { String::from_utf8_unchecked(v) }
}
fn same(a: &str, b: &str) -> bool {
    let (a, b) = (a.as_bytes(), b.as_bytes());
    if a.len() != b.len() {
        return false;
    }
    let mut e = true;
    let mut i = 0;
    while i < a.len() {
        e &= a[i] == b[i];
        i += 1;
    }
    e
}

/// `now` and the leeway concrete (so jiff's `Timestamp ± Duration` folds to constants — with both
/// symbolic its error paths' drop glue stalls symbolic execution), exp / nbf and their presence fully
/// symbolic: the leeway widens both bounds by exactly that amount, to the nanosecond.
/// The table covers a borrow (now.ns < leeway.ns), a carry, a sub-second-only leeway, a whole-second
/// leeway, a 1 ns leeway, zero leeway and a negative `now`.
const LEEWAY_CASES: [((i64, i32), (u64, u32)); 7] = [
    ((1000, 500), (1, 500_000_000)),
    ((1000, 900_000_000), (0, 250_000_000)),
    ((1_700_000_000, 123_456_789), (3600, 999_999_999)),
    ((50, 0), (2, 0)),
    ((0, 0), (0, 1)),
    ((77, 77), (0, 0)),
    ((-5, 3), (7, 999_999_998)),
];
fn leeway_concrete(k: usize) {
    let ((ws, wn), (ls, ln)) = LEEWAY_CASES[k];
    let (es, en, bs, bn): (i64, i32, i64, i32) = kani::any();
    let has_exp: bool = kani::any();
    let has_nbf: bool = kani::any();
    let (exp, nbf) = (ts(es, en), ts(bs, bn));
    let now = Timestamp::new(ws, wn).unwrap();
    let mut c = RegisteredClaims::default();
    if has_exp {
        c.exp = Some(exp);
    }
    if has_nbf {
        c.nbf = Some(nbf);
    }
    let v = Time::valid_at(now).with_leeway(Duration::new(ls, ln));
    let got = ok(v.validate(&c));
    let want = (!has_exp || ge((es, en), minus((ws, wn), (ls, ln)))) && (!has_nbf || ge(plus((ws, wn), (ls, ln)), (bs, bn)));
    assert!(got == want);
    kani::cover!(got && has_exp && has_nbf);
    kani::cover!(!got && has_exp && !has_nbf);
    kani::cover!(!got && !has_exp && has_nbf);
}
macro_rules! lc {
    ($($name:ident = $k:literal),*) => {$(
        #[kani::proof]
        #[kani::unwind(4)]
        pub fn $name() { leeway_concrete($k); }
    )*};
}
lc!(time_leeway_case0_borrow = 0, time_leeway_case1_carry = 1, time_leeway_case2_large = 2, time_leeway_case3_whole = 3,
    time_leeway_case4_1ns = 4, time_leeway_case5_zero = 5, time_leeway_case6_negative_now = 6);

/// which: 0 sub/ForSubject, 1 iss/FromIssuer, 2 aud/ForAudience; claim of length A (or absent),
/// expected string of length B
fn string_claim<const A: usize, const B: usize>(which: u8) {
    let present: bool = kani::any();
    let claim = sym_string::<A>();
    let expect = sym_string::<B>();
    let mut c = RegisteredClaims::default();
    // the other two string claims hold decoys
    let decoy = sym_string::<B>();
    match which {
        0 => {
            if present {
                c.sub = Some(claim.clone());
            }
            c.iss = Some(decoy.clone());
            c.aud = Some(decoy.clone());
        }
        1 => {
            if present {
                c.iss = Some(claim.clone());
            }
            c.sub = Some(decoy.clone());
            c.aud = Some(decoy.clone());
        }
        _ => {
            if present {
                c.aud = Some(claim.clone());
            }
            c.sub = Some(decoy.clone());
            c.iss = Some(decoy.clone());
        }
    }
    let got = match which {
        0 => ok(ForSubject(expect.as_str()).validate(&c)),
        1 => ok(FromIssuer(expect.as_str()).validate(&c)),
        _ => ok(ForAudience(expect.as_str()).validate(&c)),
    };
    let want = present && same(&claim, &expect);
    assert!(got == want);
    kani::cover!(got == (A == B), "accept (equal lengths) / reject (different lengths) reachable");
    kani::cover!(!got);
    core::mem::forget((c, claim, expect, decoy));
}
macro_rules! sc {
    ($($name:ident = ($a:literal, $b:literal, $w:literal)),*) => {$(
        #[kani::proof]
        #[kani::unwind(8)]
        pub fn $name() { string_claim::<$a, $b>($w); }
    )*};
}
/// lengths that differ by 256: a length comparison done in 8 bits would take them for equal
macro_rules! sc_long {
    ($($name:ident = ($a:literal, $b:literal, $w:literal)),*) => {$(
        #[kani::proof]
        #[kani::unwind(260)]
        pub fn $name() { string_claim::<$a, $b>($w); }
    )*};
}
sc_long!(subject_257_1 = (257, 1, 0), issuer_1_257 = (1, 257, 1), audience_256_0 = (256, 0, 2));
sc!(subject_2_2 = (2, 2, 0), subject_1_2 = (1, 2, 0), subject_0_0 = (0, 0, 0),
    issuer_3_3 = (3, 3, 1), issuer_2_3 = (2, 3, 1),
    audience_2_2 = (2, 2, 2), audience_3_1 = (3, 1, 2));
