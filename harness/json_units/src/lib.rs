//! Unit harnesses over the real paseto-json source (validators of C11, serde visitor of C14).
#![allow(dead_code, unused_imports, unused_variables)]
extern crate alloc;
#[cfg(kani)]
pub mod validators;
#[cfg(kani)]
pub mod wire;
