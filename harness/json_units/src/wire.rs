//! C14 (serde data-model level): the hand-written Serialize and Deserialize of RegisteredClaims
//! against harness-defined Serializer / MapAccess implementations.  The JSON text level
//! (serde_json, RFC 3339 formatting by jiff) is outside what is claimed.
use core::fmt::{self, Display};
use paseto_json::jiff::Timestamp;
use paseto_json::RegisteredClaims;
use serde_core::de::{self, DeserializeSeed, Deserializer, IntoDeserializer, MapAccess, Visitor};
use serde_core::ser::{self, Impossible, Serialize, SerializeStruct, Serializer};

// ---------------------------------------------------------------------------------- serialize
#[derive(Debug)]
struct E;
impl Display for E {
    fn fmt(&self, f: &mut fmt::Formatter<'_>) -> fmt::Result {
        f.write_str("E")
    }
}
impl std::error::Error for E {}
impl ser::Error for E {
    fn custom<T: Display>(_: T) -> Self {
        E
    }
}
impl de::Error for E {
    fn custom<T: Display>(_: T) -> Self {
        E
    }
}

/// what a field value turned out to be: a string (by address) or a Display value (by address)
#[derive(Clone, Copy, PartialEq, Eq)]
enum Val {
    None,
    Str(*const u8, usize),
    Disp(*const u8),
}
struct Rec {
    n: usize,
    names: [&'static str; 8],
    vals: [Val; 8],
    struct_name: &'static str,
    ended: bool,
}
struct ValSer<'a>(&'a mut Val);
macro_rules! unsupported {
    ($($f:ident($($t:ty),*)),*) => {$(
        fn $f(self $(, _: $t)*) -> Result<Self::Ok, E> { Err(E) }
    )*};
}
impl<'a> Serializer for ValSer<'a> {
    type Ok = ();
    type Error = E;
    type SerializeSeq = Impossible<(), E>;
    type SerializeTuple = Impossible<(), E>;
    type SerializeTupleStruct = Impossible<(), E>;
    type SerializeTupleVariant = Impossible<(), E>;
    type SerializeMap = Impossible<(), E>;
    type SerializeStruct = Impossible<(), E>;
    type SerializeStructVariant = Impossible<(), E>;
    fn serialize_str(self, v: &str) -> Result<(), E> {
        *self.0 = Val::Str(v.as_ptr(), v.len());
        Ok(())
    }
    fn collect_str<T: ?Sized + Display>(self, value: &T) -> Result<(), E> {
        // jiff::Timestamp serialises through collect_str(self); the text itself is jiff's business
        *self.0 = Val::Disp(value as *const T as *const u8);
        Ok(())
    }
    unsupported!(serialize_bool(bool), serialize_i8(i8), serialize_i16(i16), serialize_i32(i32), serialize_i64(i64), serialize_u8(u8), serialize_u16(u16),
        serialize_u32(u32), serialize_u64(u64), serialize_f32(f32), serialize_f64(f64), serialize_char(char), serialize_bytes(&[u8]), serialize_none(),
        serialize_unit(), serialize_unit_struct(&'static str), serialize_unit_variant(&'static str, u32, &'static str));
    fn serialize_some<T: ?Sized + Serialize>(self, v: &T) -> Result<(), E> {
        v.serialize(self)
    }
    fn serialize_newtype_struct<T: ?Sized + Serialize>(self, _: &'static str, v: &T) -> Result<(), E> {
        v.serialize(self)
    }
    fn serialize_newtype_variant<T: ?Sized + Serialize>(self, _: &'static str, _: u32, _: &'static str, _: &T) -> Result<(), E> {
        Err(E)
    }
    fn serialize_seq(self, _: Option<usize>) -> Result<Self::SerializeSeq, E> {
        Err(E)
    }
    fn serialize_tuple(self, _: usize) -> Result<Self::SerializeTuple, E> {
        Err(E)
    }
    fn serialize_tuple_struct(self, _: &'static str, _: usize) -> Result<Self::SerializeTupleStruct, E> {
        Err(E)
    }
    fn serialize_tuple_variant(self, _: &'static str, _: u32, _: &'static str, _: usize) -> Result<Self::SerializeTupleVariant, E> {
        Err(E)
    }
    fn serialize_map(self, _: Option<usize>) -> Result<Self::SerializeMap, E> {
        Err(E)
    }
    fn serialize_struct(self, _: &'static str, _: usize) -> Result<Self::SerializeStruct, E> {
        Err(E)
    }
    fn serialize_struct_variant(self, _: &'static str, _: u32, _: &'static str, _: usize) -> Result<Self::SerializeStructVariant, E> {
        Err(E)
    }
}
struct TopSer<'a>(&'a mut Rec);
impl<'a> SerializeStruct for TopSer<'a> {
    type Ok = ();
    type Error = E;
    fn serialize_field<T: ?Sized + Serialize>(&mut self, key: &'static str, value: &T) -> Result<(), E> {
        let i = self.0.n;
        assert!(i < 8);
        self.0.names[i] = key;
        let mut v = Val::None;
        value.serialize(ValSer(&mut v))?;
        self.0.vals[i] = v;
        self.0.n = i + 1;
        Ok(())
    }
    fn end(self) -> Result<(), E> {
        self.0.ended = true;
        Ok(())
    }
}
impl<'a> Serializer for TopSer<'a> {
    type Ok = ();
    type Error = E;
    type SerializeSeq = Impossible<(), E>;
    type SerializeTuple = Impossible<(), E>;
    type SerializeTupleStruct = Impossible<(), E>;
    type SerializeTupleVariant = Impossible<(), E>;
    type SerializeMap = Impossible<(), E>;
    type SerializeStruct = TopSer<'a>;
    type SerializeStructVariant = Impossible<(), E>;
    unsupported!(serialize_bool(bool), serialize_i8(i8), serialize_i16(i16), serialize_i32(i32), serialize_i64(i64), serialize_u8(u8), serialize_u16(u16),
        serialize_u32(u32), serialize_u64(u64), serialize_f32(f32), serialize_f64(f64), serialize_char(char), serialize_str(&str), serialize_bytes(&[u8]),
        serialize_none(), serialize_unit(), serialize_unit_struct(&'static str), serialize_unit_variant(&'static str, u32, &'static str));
    fn serialize_some<T: ?Sized + Serialize>(self, _: &T) -> Result<(), E> {
        Err(E)
    }
    fn serialize_newtype_struct<T: ?Sized + Serialize>(self, _: &'static str, _: &T) -> Result<(), E> {
        Err(E)
    }
    fn serialize_newtype_variant<T: ?Sized + Serialize>(self, _: &'static str, _: u32, _: &'static str, _: &T) -> Result<(), E> {
        Err(E)
    }
    fn serialize_seq(self, _: Option<usize>) -> Result<Self::SerializeSeq, E> {
        Err(E)
    }
    fn serialize_tuple(self, _: usize) -> Result<Self::SerializeTuple, E> {
        Err(E)
    }
    fn serialize_tuple_struct(self, _: &'static str, _: usize) -> Result<Self::SerializeTupleStruct, E> {
        Err(E)
    }
    fn serialize_tuple_variant(self, _: &'static str, _: u32, _: &'static str, _: usize) -> Result<Self::SerializeTupleVariant, E> {
        Err(E)
    }
    fn serialize_map(self, _: Option<usize>) -> Result<Self::SerializeMap, E> {
        Err(E)
    }
    fn serialize_struct(self, name: &'static str, _: usize) -> Result<Self::SerializeStruct, E> {
        self.0.struct_name = name;
        Ok(self)
    }
    fn serialize_struct_variant(self, _: &'static str, _: u32, _: &'static str, _: usize) -> Result<Self::SerializeStructVariant, E> {
        Err(E)
    }
}

fn s2() -> String {
    let b: [u8; 2] = kani::any();
    kani::assume(b[0] < 0x80 && b[1] < 0x80);
    let mut v = Vec::with_capacity(2);
    v.push(b[0]);
    v.push(b[1]);
    unsafe { String::from_utf8_unchecked(v) }
}
fn t() -> Timestamp {
    let s: i64 = kani::any();
    let n: i32 = kani::any();
    kani::assume(s > -(1 << 36) && s < (1 << 36) && n >= 0 && n < 1_000_000_000);
    Timestamp::new(s, n).unwrap()
}

/// presence of each of the 7 claims symbolic: exactly the present claims are emitted, in the order
/// iss sub aud exp nbf iat jti, under their registered names, each carrying its own value
#[kani::proof]
#[kani::unwind(10)]
pub fn serialize_emits_exactly_present_claims() {
    let pres: [bool; 7] = kani::any();
    let mut c = RegisteredClaims::default();
    if pres[0] {
        c.iss = Some(s2());
    }
    if pres[1] {
        c.sub = Some(s2());
    }
    if pres[2] {
        c.aud = Some(s2());
    }
    if pres[3] {
        c.exp = Some(t());
    }
    if pres[4] {
        c.nbf = Some(t());
    }
    if pres[5] {
        c.iat = Some(t());
    }
    if pres[6] {
        c.jti = Some(s2());
    }
    let mut rec = Rec { n: 0, names: [""; 8], vals: [Val::None; 8], struct_name: "", ended: false };
    let r = c.serialize(TopSer(&mut rec));
    assert!(r.is_ok() && rec.ended);
    let names = ["iss", "sub", "aud", "exp", "nbf", "iat", "jti"];
    let sv = |o: &Option<String>| match o {
        Some(s) => Val::Str(s.as_ptr(), s.len()),
        None => Val::None,
    };
    let tv = |o: &Option<Timestamp>| match o {
        Some(t) => Val::Disp(t as *const Timestamp as *const u8),
        None => Val::None,
    };
    let want = [sv(&c.iss), sv(&c.sub), sv(&c.aud), tv(&c.exp), tv(&c.nbf), tv(&c.iat), sv(&c.jti)];
    let mut k = 0;
    let mut i = 0;
    while i < 7 {
        if pres[i] {
            assert!(k < rec.n, "a present claim was not emitted");
            assert!(rec.names[k].as_bytes() == names[i].as_bytes(), "claim emitted under the wrong name or out of order");
            assert!(rec.vals[k] == want[i], "claim emitted with another claim's value");
            k += 1;
        }
        i += 1;
    }
    assert!(k == rec.n, "an absent claim was emitted");
    kani::cover!(rec.n == 7);
    kani::cover!(rec.n == 0);
    core::mem::forget(c);
}

// -------------------------------------------------------------------------------- deserialize
/// a map of up to 4 members; key k: 0..=6 the registered names, 7 an unknown name; value: null or
/// a 1-character string drawn from the member (time-valued claims are only offered null here: their
/// text parsing is jiff's)
#[derive(Clone, Copy)]
struct Member {
    key: u8,
    null: bool,
    ch: u8,
}
struct Map {
    m: [Member; 4],
    len: usize,
    pos: usize,
    /// deliver member names as bytes (visit_borrowed_bytes) instead of str
    bytes: bool,
}
/// 0..=6 registered; 7.. unknown names, two of them sharing a prefix with / being a prefix of a registered one
const NAMES: [&str; 10] = ["iss", "sub", "aud", "exp", "nbf", "iat", "jti", "zzz", "issuer", "ex"];
struct ValDe(Member);
impl<'de> Deserializer<'de> for ValDe {
    type Error = E;
    fn deserialize_any<V: Visitor<'de>>(self, v: V) -> Result<V::Value, E> {
        if self.0.null { v.visit_unit() } else { v.visit_string(one(self.0.ch)) }
    }
    fn deserialize_option<V: Visitor<'de>>(self, v: V) -> Result<V::Value, E> {
        if self.0.null { v.visit_none() } else { v.visit_some(self) }
    }
    fn deserialize_ignored_any<V: Visitor<'de>>(self, v: V) -> Result<V::Value, E> {
        v.visit_unit()
    }
    fn deserialize_str<V: Visitor<'de>>(self, v: V) -> Result<V::Value, E> {
        v.visit_string(one(self.0.ch))
    }
    fn deserialize_string<V: Visitor<'de>>(self, v: V) -> Result<V::Value, E> {
        v.visit_string(one(self.0.ch))
    }
    serde_core::forward_to_deserialize_any! {
        bool i8 i16 i32 i64 i128 u8 u16 u32 u64 u128 f32 f64 char bytes byte_buf unit unit_struct newtype_struct seq tuple
        tuple_struct map struct enum identifier
    }
}
fn one(ch: u8) -> String {
    let mut v = Vec::with_capacity(1);
    v.push(ch & 0x7f);
    unsafe { String::from_utf8_unchecked(v) }
}
impl<'de> MapAccess<'de> for Map {
    type Error = E;
    fn next_key_seed<K: DeserializeSeed<'de>>(&mut self, seed: K) -> Result<Option<K::Value>, E> {
        if self.pos >= self.len {
            return Ok(None);
        }
        let name: &'static str = NAMES[self.m[self.pos].key as usize];
        if self.bytes {
            seed.deserialize(de::value::BorrowedBytesDeserializer::<E>::new(name.as_bytes())).map(Some)
        } else {
            seed.deserialize(de::value::BorrowedStrDeserializer::<E>::new(name)).map(Some)
        }
    }
    fn next_value_seed<S: DeserializeSeed<'de>>(&mut self, seed: S) -> Result<S::Value, E> {
        let m = self.m[self.pos];
        self.pos += 1;
        seed.deserialize(ValDe(m))
    }
}
struct TopDe(Map);
impl<'de> Deserializer<'de> for TopDe {
    type Error = E;
    fn deserialize_any<V: Visitor<'de>>(self, v: V) -> Result<V::Value, E> {
        v.visit_map(self.0)
    }
    serde_core::forward_to_deserialize_any! {
        bool i8 i16 i32 i64 i128 u8 u16 u32 u64 u128 f32 f64 char str string bytes byte_buf option unit unit_struct
        newtype_struct seq tuple tuple_struct map struct enum identifier ignored_any
    }
}

/// reference semantics: members applied in order; a registered name that is already Some is a
/// duplicate error; null leaves/sets None; unknown names are skipped; result == "last value wins"
///
/// The member NAMES are concrete per harness (const parameters K0..K2): a symbolic name would reach
/// serde's field matcher as a `&str` of symbolic length, which CBMC cannot bound (both 1- and 2-member
/// harnesses with symbolic names ran past 1500 s).  null-ness and the value character stay symbolic.
fn map_semantics<const N: usize, const K0: u8, const K1: u8, const K2: u8, const BYTES: bool>() {
    let keys = [K0, K1, K2, 7];
    let mut m = [Member { key: 7, null: true, ch: 0 }; 4];
    let mut i = 0;
    while i < N {
        let key: u8 = keys[i];
        let null: bool = if key >= 3 && key <= 5 { true } else { kani::any() };
        let ch: u8 = kani::any();
        m[i] = Member { key, null, ch };
        i += 1;
    }
    let r = <RegisteredClaims as de::Deserialize>::deserialize(TopDe(Map { m, len: N, pos: 0, bytes: BYTES }));
    // reference
    let mut cur: [Option<u8>; 8] = [None; 8];
    let mut dup = false;
    let mut i = 0;
    while i < N {
        let k = m[i].key as usize;
        if k < 7 && !dup {
            if cur[k].is_some() {
                dup = true;
            } else if !m[i].null {
                cur[k] = Some(m[i].ch & 0x7f);
            }
        }
        i += 1;
    }
    match &r {
        Err(_) => assert!(dup, "a map without duplicates was rejected"),
        Ok(c) => {
            assert!(!dup, "a duplicate of an already-set claim was accepted");
            let chk = |o: &Option<String>, want: Option<u8>| match (o, want) {
                (None, None) => true,
                (Some(s), Some(w)) => s.len() == 1 && s.as_bytes()[0] == w,
                _ => false,
            };
            assert!(chk(&c.iss, cur[0]) && chk(&c.sub, cur[1]) && chk(&c.aud, cur[2]) && chk(&c.jti, cur[6]));
            assert!(c.exp.is_none() && c.nbf.is_none() && c.iat.is_none());
        }
    }
    kani::cover!(r.is_ok());
    let strk = |k: u8| k <= 2 || k == 6;
    let can_dup = (N >= 2 && K0 == K1 && strk(K0)) || (N >= 3 && ((K0 == K2 && strk(K0)) || (K1 == K2 && strk(K1))));
    kani::cover!(!can_dup || r.is_err(), "duplicate rejection reachable where the names repeat");
    core::mem::forget(r);
}
macro_rules! map_h {
    ($($name:ident: $n:expr, $k0:expr, $k1:expr, $k2:expr;)*) => {$(
        #[kani::proof]
        #[kani::unwind(10)]
        pub fn $name() { map_semantics::<{ $n }, { $k0 }, { $k1 }, { $k2 }, false>(); }
    )*};
}
macro_rules! map_bytes_h {
    ($($name:ident: $n:expr, $k0:expr, $k1:expr, $k2:expr;)*) => {$(
        #[kani::proof]
        #[kani::unwind(10)]
        pub fn $name() { map_semantics::<{ $n }, { $k0 }, { $k1 }, { $k2 }, true>(); }
    )*};
}
map_bytes_h! {
    // member names delivered as bytes (formats may call visit_bytes / visit_borrowed_bytes)
    deserialize_map_bytes_iss: 1, 0, 7, 7;
    deserialize_map_bytes_issuer: 1, 8, 7, 7;
    deserialize_map_bytes_iss_issuer: 2, 0, 8, 7;
    deserialize_map_bytes_ex: 1, 9, 7, 7;
    deserialize_map_bytes_jti_jti: 2, 6, 6, 7;
}
map_h! {
    deserialize_map_n0: 0, 7, 7, 7;
    // one member: each registered name and an unknown one
    deserialize_map_iss: 1, 0, 7, 7;
    deserialize_map_sub: 1, 1, 7, 7;
    deserialize_map_aud: 1, 2, 7, 7;
    deserialize_map_exp_null: 1, 3, 7, 7;
    deserialize_map_nbf_null: 1, 4, 7, 7;
    deserialize_map_iat_null: 1, 5, 7, 7;
    deserialize_map_jti: 1, 6, 7, 7;
    deserialize_map_unknown: 1, 7, 7, 7;
    // two members: duplicates, distinct names (both orders), unknown names around a known one
    deserialize_map_iss_iss: 2, 0, 0, 7;
    deserialize_map_jti_jti: 2, 6, 6, 7;
    deserialize_map_aud_aud: 2, 2, 2, 7;
    deserialize_map_iss_sub: 2, 0, 1, 7;
    deserialize_map_sub_iss: 2, 1, 0, 7;
    deserialize_map_unknown_iss: 2, 7, 0, 7;
    deserialize_map_iss_unknown: 2, 0, 7, 7;
    deserialize_map_exp_exp_null: 2, 3, 3, 7;
    // three members
    deserialize_map_iss_unknown_iss: 3, 0, 7, 0;
    deserialize_map_sub_aud_jti: 3, 1, 2, 6;
    // unknown names that extend / are a prefix of a registered name
    deserialize_map_issuer: 1, 8, 7, 7;
    deserialize_map_iss_issuer: 2, 0, 8, 7;
    deserialize_map_ex: 1, 9, 7, 7;
}
