// C14 harnesses: see wire.rs
