//! L2 harnesses: the real paseto-v2 source over the model crates of /verif/models.
#![allow(dead_code, unused_imports, static_mut_refs)]
extern crate alloc;

#[path = "../common/l2.rs"]
pub mod l2;
#[macro_use]
#[path = "../common/inst.rs"]
pub mod inst;

#[cfg(kani)]
mod proofs {
    use super::l2::*;
    use paseto_core::key::HasKey;
    use paseto_core::paserk::PkeSealingVersion;
    use paseto_core::version::{Local, Public, SealingVersion};
    use paseto_v2::core::V2 as V;

    fn setup() {
    }
    fn ks() -> usize {
        unsafe { chacha20::KEYSTREAM_APPLIED }
    }
    fn arm(at: usize) {
        unsafe { getrandom::FAIL_AT = at }
    }
    fn draws() -> usize {
        unsafe { getrandom::DRAWS }
    }
    fn last_draw() -> [u8; 64] {
        unsafe { getrandom::LAST[0] }
    }
    fn rcpt() -> Recipient<V> {
        let sk = match forget(<V as SealingVersion<Public>>::random()) {
            Some(k) => k,
            None => {
                kani::assume(false);
                unreachable!()
            }
        };
        Recipient { pk: <V as SealingVersion<Public>>::unsealing_key(&sk), sk }
    }

    instantiate_tokens!(V = V, NONCE = 24, TAG = 16, SIG = 64, A = 0, KS = ks, ARM = arm, DRAWS = draws);
    instantiate_noaad!(V = V);
    instantiate_paserk!(V = V, PIE_OVER = 64, SECRET_LEN = 64, PW_PREFIX = 56, PW_OVER = 88, PW_PARAMS_OFF = 16, PW_PARAMS_LEN = 16, ARM = arm, DRAWS = draws);
    instantiate_pke!(V = V, PKE_LEN = 96, RCPT = rcpt(), ARM = arm, DRAWS = draws);


    h!(public_rng_fail_closed_, public_rng_fail_closed::<V>(arm, draws));
    h!(pw_rng_fail_closed_at0, pw_rng_fail_closed::<V, 0>(".local-pw.", arm, draws));
    h!(pw_rng_fail_closed_at1, pw_rng_fail_closed::<V, 1>(".local-pw.", arm, draws));
    h!(pke_rng_fail_closed_, {
        let r = rcpt();
        let key = forget(<V as HasKey<Local>>::decode(&[7u8; 32])).unwrap();
        arm(draws());
        let s = <V as PkeSealingVersion>::seal_key(&r.pk, key);
        assert!(s.is_err(), "seal_key ignored an RNG failure");
        kani::cover!(s.is_err());
        core::mem::forget(s);
    });
}
