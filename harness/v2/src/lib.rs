//! L2 harnesses: the real paseto-v2 source over the model crates of /verif/models.
#![allow(dead_code, unused_imports, static_mut_refs)]
extern crate alloc;

/// signature length of public tokens (see l2::signed)
pub const PUBLIC_SIG_LEN: usize = 64;
/// see l2::new_secret
pub const SECRET_SOURCE: u8 = 0;
#[path = "../common/l2.rs"]
pub mod l2;
#[macro_use]
#[path = "../common/inst.rs"]
pub mod inst;

#[cfg(kani)]
pub mod proofs {
    use super::l2::*;
    use paseto_core::key::HasKey;
    use paseto_core::paserk::PkeSealingVersion;
    use paseto_core::version::{Local, Public, SealingVersion};
    use paseto_v2::core::V2 as V;

    fn setup() {
    }
    fn ks() -> usize {
        unsafe { chacha20::KEYSTREAM_APPLIED }
    }
    fn arm(at: usize) {
        unsafe { getrandom::FAIL_AT = at }
    }
    fn draws() -> usize {
        unsafe { getrandom::DRAWS }
    }
    fn last_draw() -> [u8; 64] {
        unsafe { getrandom::LAST[0] }
    }
    fn rcpt() -> Recipient<V> {
        let sk = match forget(<V as SealingVersion<Public>>::random()) {
            Some(k) => k,
            None => {
                kani::assume(false);
                unreachable!()
            }
        };
        Recipient { pk: <V as SealingVersion<Public>>::unsealing_key(&sk), sk }
    }

    instantiate_tokens!(V = V, NONCE = 24, TAG = 16, SIG = 64, A = 0, KS = ks, ARM = arm, DRAWS = draws);
    instantiate_noaad!(V = V);
    instantiate_paserk!(V = V, PIE_OVER = 64, SECRET_LEN = 64, PW_PREFIX = 56, PW_OVER = 88, PW_PARAMS_OFF = 16, PW_PARAMS_LEN = 16, ARM = arm, DRAWS = draws);
    instantiate_pke!(V = V, PKE_LEN = 96, RCPT = rcpt(), ARM = arm, DRAWS = draws);
    instantiate_keys!(V = V, PUB_LEN = 32, SEC_LEN = 64, PUB_IN_SECRET = Some(32), PUB_LENS = &[32], ID_DOM = vmodel::D_BLAKE2, ID_PREFIX = &[33, 0], PASERK = b"k2");


    h!(public_rng_fail_closed_, public_rng_fail_closed::<V>(arm, draws));
    /// Argon2id parameter block (mem bytes u64 BE, time u32 BE, parallelism u32 BE): valid iff mem is
    /// a multiple of 1024, mem/1024 fits u32 and is >= 8 and >= 8*para, time >= 1, 1 <= para <= 0xFFFFFF
    /// The memory field alone (it is the one field CBMC reads correctly through zerocopy's pointer
    /// cast, DESIGN.md 7.2): time and parallelism are the byte-palindromes 00 01 01 00 (= 65792 in
    /// either byte order).  pw_wrap_key reaches the KDF iff mem is a multiple of 1024 whose KiB count
    /// fits u32 and is at least 8 * parallelism; the path ends at the KDF.
    h!(c05_pbkw_mem_domain, {
        use paseto_core::paserk::PwWrapVersion;
        let mb: [u8; 8] = kani::any();
        let mem = u64::from_be_bytes(mb);
        let pb: [u8; 16] = [mb[0], mb[1], mb[2], mb[3], mb[4], mb[5], mb[6], mb[7], 0, 1, 1, 0, 0, 1, 1, 0];
        let para = 0x0001_0100u64;
        let kib = mem >> 10;
        let valid = mem & 1023 == 0 && kib <= u32::MAX as u64 && kib >= 8 * para;
        let p = pw_params_from_bytes::<V, 56>(16, &pb).unwrap();
        unsafe {
            argon2::ABORT_AT_KDF = true;
            argon2::EXPECT_VALID = valid;
        }
        fn calls() -> usize {
            unsafe { argon2::CALLS }
        }
        pw_param_domain::<V>(".local-pw.", p, valid, calls)
    });
    h!(c05_pbkw_param_domain, {
        use paseto_core::paserk::PwWrapVersion;
        let pb: [u8; 16] = kani::any();
        let mem = u64::from_be_bytes([pb[0], pb[1], pb[2], pb[3], pb[4], pb[5], pb[6], pb[7]]);
        let time = u32::from_be_bytes([pb[8], pb[9], pb[10], pb[11]]);
        let para = u32::from_be_bytes([pb[12], pb[13], pb[14], pb[15]]);
        let kib = mem >> 10;
        let valid = mem & 1023 == 0 && kib <= u32::MAX as u64 && kib >= 8 && para >= 1 && para <= 0xFF_FFFF && kib >= 8 * para as u64 && time >= 1;
        let p = pw_params_from_bytes::<V, 56>(16, &pb).unwrap();
        unsafe {
            argon2::ABORT_AT_KDF = true;
            argon2::EXPECT_VALID = valid;
        }
        fn calls() -> usize {
            unsafe { argon2::CALLS }
        }
        pw_param_domain::<V>(".local-pw.", p, valid, calls)
    });
    /// C04: every 89-byte blob (all salts, all cost parameters, all nonces) goes from parsing to the
    /// entry of the KDF without a panic; the path ends where the KDF would start (its cost is the
    /// attacker's to choose and outside C04's budget; what follows the KDF is covered by the PBKW
    /// round-trip and tamper harnesses)
    h!(c04_pw_unwrap_to_kdf, {
        unsafe {
            argon2::ABORT_AT_KDF = true;
            argon2::EXPECT_VALID = true;
        }
        pw_unwrap_arbitrary::<V, 89>(".local-pw.")
    });
    // Cost parameters whose 32-bit fields are byte-palindromes (time = parallelism = 00 01 01 00 = 65792,
    // memory 8 * 65792 KiB): valid under either byte order of the 32-bit fields (DESIGN.md 7.2).
    fn pal_params() -> <V as paseto_core::paserk::PwWrapVersion>::Params {
        let mem: u64 = 8 * 65792 * 1024;
        let m = mem.to_be_bytes();
        let pb: [u8; 16] = [m[0], m[1], m[2], m[3], m[4], m[5], m[6], m[7], 0, 1, 1, 0, 0, 1, 1, 0];
        pw_params_from_bytes::<V, 56>(16, &pb).unwrap()
    }
    /// witness for the two harnesses below: with these parameters and a healthy RNG, pw_wrap_key does
    /// reach the KDF (every path that returns before it would hit the assertion)
    h!(pw_pal_params_reach_kdf, {
        use paseto_core::paserk::PwWrapVersion;
        unsafe {
            argon2::ABORT_AT_KDF = true;
            argon2::EXPECT_VALID = true;
        }
        let mut v = Vec::with_capacity(4);
        v.extend_from_slice(&[1, 2, 3, 4]);
        let r = V::pw_wrap_key(".local-pw.", b"pw", &pal_params(), v);
        core::mem::forget(r);
        assert!(false, "pw_wrap_key returned without reaching the KDF");
    });
    h!(pw_rng_fail_closed_at0, pw_rng_fail_closed_with::<V, 0>(".local-pw.", arm, draws, pal_params()));
    h!(pw_rng_fail_closed_at1, pw_rng_fail_closed_with::<V, 1>(".local-pw.", arm, draws, pal_params()));
    h!(pke_rng_fail_closed_, {
        let r = rcpt();
        let key = forget(<V as HasKey<Local>>::decode(&[7u8; 32])).unwrap();
        arm(draws());
        let s = <V as PkeSealingVersion>::seal_key(&r.pk, key);
        assert!(s.is_err(), "seal_key ignored an RNG failure");
        kani::cover!(s.is_err());
        core::mem::forget(s);
    });
}
