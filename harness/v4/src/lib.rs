//! L2 harnesses: the real paseto-v4 source over the model crates of /verif/models.
#![allow(dead_code, unused_imports, static_mut_refs)]
extern crate alloc;

#[path = "../common/l2.rs"]
pub mod l2;

#[cfg(kani)]
mod proofs {
    use super::l2::*;
    use paseto_v4::core::V4 as V;

    fn ks() -> usize {
        unsafe { chacha20::KEYSTREAM_APPLIED }
    }
    fn arm(at: usize) {
        unsafe { getrandom::FAIL_AT = at }
    }
    fn draws() -> usize {
        unsafe { getrandom::DRAWS }
    }

    macro_rules! h {
        ($name:ident, $body:expr) => {
            #[kani::proof]
            #[kani::unwind(66)]
            #[kani::stub(paseto_core::pae::pre_auth_encode, crate::l2::pae_model)]
            fn $name() {
                $body
            }
        };
    }

    fn last_draw() -> [u8; 64] {
        unsafe { getrandom::LAST[0] }
    }
    macro_rules! classes {
        ($fam:ident, $($name:ident = $w:literal),*; $args:tt) => {$(
            h!($name, $fam::<V, $w> $args);
        )*};
    }

    // C01 — local
    h!(local_roundtrip_m0_f0_a0, local_roundtrip::<V>(0, 0, 0, 64));
    h!(local_roundtrip_m3_f2_a1, local_roundtrip::<V>(3, 2, 1, 64));
    h!(local_roundtrip_m17_f0_a0, local_roundtrip::<V>(17, 0, 0, 64));
    // C02 / C12 — local
    h!(local_tamper_payload_bit_m2, local_tamper_payload_bit::<V>(2, 1, 0, ks));
    classes!(local_tamper_class,
        local_tamper_w0_footer_bit = 0, local_tamper_w1_aad_bit = 1, local_tamper_w2_footer_grow = 2,
        local_tamper_w3_footer_shrink = 3, local_tamper_w4_aad_grow = 4, local_tamper_w5_aad_shrink = 5,
        local_tamper_w6_footer_to_aad = 6, local_tamper_w7_aad_to_footer = 7, local_tamper_w8_ct_to_footer = 8,
        local_tamper_w9_footer_to_ct = 9, local_tamper_w10_trunc_end = 10, local_tamper_w11_trunc_front = 11,
        local_tamper_w12_extend_end = 12, local_tamper_w13_extend_front = 13, local_tamper_w14_other_key = 14;
        (2, 2, 2, 32));
    // C16
    h!(local_rng_fail_closed_, local_rng_fail_closed::<V>(arm, draws));
    h!(local_nonce_is_draw_, local_nonce_is_draw::<V>(32, last_draw));
    // C04 (full mode)
    h!(local_unseal_arbitrary_n0, local_unseal_arbitrary::<V, 0>());
    h!(local_unseal_arbitrary_n63, local_unseal_arbitrary::<V, 63>());
    h!(local_unseal_arbitrary_n64, local_unseal_arbitrary::<V, 64>());
    h!(local_unseal_arbitrary_n66, local_unseal_arbitrary::<V, 66>());

    // ---- public
    h!(public_roundtrip_m0_f0_a0, public_roundtrip::<V>(0, 0, 0, 64));
    h!(public_roundtrip_m3_f2_a1, public_roundtrip::<V>(3, 2, 1, 64));
    h!(public_tamper_payload_bit_m2, public_tamper_payload_bit::<V>(2, 1, 0));
    classes!(public_tamper_class,
        public_tamper_w0_footer_bit = 0, public_tamper_w1_aad_bit = 1, public_tamper_w2_footer_grow = 2,
        public_tamper_w3_footer_shrink = 3, public_tamper_w4_aad_grow = 4, public_tamper_w5_aad_shrink = 5,
        public_tamper_w6_footer_to_aad = 6, public_tamper_w7_aad_to_footer = 7, public_tamper_w8_msg_to_footer = 8,
        public_tamper_w9_footer_to_msg = 9, public_tamper_w10_trunc_end = 10, public_tamper_w11_trunc_front = 11,
        public_tamper_w12_extend_end = 12, public_tamper_w13_extend_front = 13, public_tamper_w14_other_key = 14;
        (2, 2, 2));
    h!(public_rng_fail_closed_, public_rng_fail_closed::<V>(arm, draws));
    h!(public_unseal_arbitrary_n0, public_unseal_arbitrary::<V, 0>());
    h!(public_unseal_arbitrary_n63, public_unseal_arbitrary::<V, 63>());
    h!(public_unseal_arbitrary_n65, public_unseal_arbitrary::<V, 65>());

    // ---- PIE
    const LW: &str = ".local-wrap.pie.";
    const SW: &str = ".secret-wrap.pie.";
    h!(pie_roundtrip_local, pie_roundtrip::<V, 32>(LW, 64));
    h!(pie_roundtrip_secret, pie_roundtrip::<V, 64>(SW, 64));
    h!(pie_tamper_w0_bit, pie_tamper::<V, 32, 0>(LW, SW));
    h!(pie_tamper_w1_relabel, pie_tamper::<V, 32, 1>(LW, SW));
    h!(pie_tamper_w2_other_key, pie_tamper::<V, 32, 2>(LW, SW));
    h!(pie_tamper_w3_trunc, pie_tamper::<V, 32, 3>(LW, SW));
    h!(pie_tamper_w4_extend, pie_tamper::<V, 32, 4>(LW, SW));
    h!(pie_rng_fail_closed_, pie_rng_fail_closed::<V>(LW, arm, draws));
    h!(pie_unwrap_arbitrary_n0, pie_unwrap_arbitrary::<V, 0>(LW));
    h!(pie_unwrap_arbitrary_n63, pie_unwrap_arbitrary::<V, 63>(LW));
    h!(pie_unwrap_arbitrary_n65, pie_unwrap_arbitrary::<V, 65>(LW));

    // ---- PBKW
    const LP: &str = ".local-pw.";
    const SP: &str = ".secret-pw.";
    h!(pw_roundtrip_local_default, pw_roundtrip::<V, 32, 2>(LP, 88, None));
    h!(pw_roundtrip_secret_default_pw0, pw_roundtrip::<V, 64, 0>(SP, 88, None));
    h!(pw_default_must_succeed_, pw_default_must_succeed::<V>(LP));
    h!(pw_roundtrip_local_symbolic_params, {
        let pb: [u8; 16] = kani::any();
        let p = pw_params_from_bytes::<V, 56>(16, &pb);
        assert!(p.is_some());
        pw_roundtrip::<V, 32, 1>(LP, 88, p)
    });
    h!(pw_tamper_w0_bit, pw_tamper::<V, 32, 0>(LP, SP));
    h!(pw_tamper_w1_relabel, pw_tamper::<V, 32, 1>(LP, SP));
    h!(pw_tamper_w2_other_pw, pw_tamper::<V, 32, 2>(LP, SP));
    h!(pw_tamper_w3_pw_longer, pw_tamper::<V, 32, 3>(LP, SP));
    h!(pw_tamper_w4_pw_shorter, pw_tamper::<V, 32, 4>(LP, SP));
    h!(pw_tamper_w5_trunc, pw_tamper::<V, 32, 5>(LP, SP));
    h!(pw_tamper_w6_extend, pw_tamper::<V, 32, 6>(LP, SP));
    h!(pw_rng_fail_closed_at0, pw_rng_fail_closed::<V, 0>(LP, arm, draws));
    h!(pw_rng_fail_closed_at1, pw_rng_fail_closed::<V, 1>(LP, arm, draws));
    h!(pw_unwrap_arbitrary_n0, pw_unwrap_arbitrary::<V, 0>(LP));
    h!(pw_unwrap_arbitrary_n87, pw_unwrap_arbitrary::<V, 87>(LP));
    h!(pw_unwrap_arbitrary_n89, pw_unwrap_arbitrary::<V, 89>(LP));

    // ---- PKE
    use paseto_core::version::{Public, SealingVersion};
    fn rcpt() -> Recipient<V> {
        let sk = match forget(<V as SealingVersion<Public>>::random()) {
            Some(k) => k,
            None => {
                kani::assume(false);
                unreachable!()
            }
        };
        Recipient { pk: <V as SealingVersion<Public>>::unsealing_key(&sk), sk }
    }
    h!(pke_roundtrip_, pke_roundtrip::<V>(rcpt(), 96));
    h!(pke_tamper_w0_bit, pke_tamper::<V, 0>(rcpt(), None));
    h!(pke_tamper_w1_other_rcpt, pke_tamper::<V, 1>(rcpt(), Some(rcpt())));
    h!(pke_tamper_w2_trunc, pke_tamper::<V, 2>(rcpt(), None));
    h!(pke_tamper_w3_extend, pke_tamper::<V, 3>(rcpt(), None));
    h!(pke_rng_fail_closed_, {
        let r = rcpt();
        let key = forget(<V as paseto_core::key::HasKey<paseto_core::version::Local>>::decode(&[7u8; 32])).unwrap();
        arm(draws());
        let s = <V as paseto_core::paserk::PkeSealingVersion>::seal_key(&r.pk, key);
        assert!(s.is_err(), "seal_key ignored an RNG failure");
        kani::cover!(s.is_err());
        core::mem::forget(s);
    });
    h!(pke_unseal_arbitrary_n95, pke_unseal_arbitrary::<V, 95>(rcpt().sk));
    h!(pke_unseal_arbitrary_n96, pke_unseal_arbitrary::<V, 96>(rcpt().sk));
    h!(pke_unseal_arbitrary_n97, pke_unseal_arbitrary::<V, 97>(rcpt().sk));
}
