//! L2 harness families, generic over a backend `V` (one instantiation per backend crate; the
//! backend's real source is compiled against the model crates of /verif/models).
//!
//! Every family draws its *replay inputs* first, in a fixed order documented in lib/specs.py, so the
//! solver's counterexample can be mapped onto a native run against the real crates.
#![allow(dead_code, unused_imports, unused_variables, unused_mut)]
use alloc::boxed::Box;
use alloc::vec::Vec;

use paseto_core::key::{HasKey, KeyType, SealingKey};
use paseto_core::paserk::{IdVersion, PieWrapVersion, PkeSealingVersion, PkeUnsealingVersion, PwWrapVersion};
use paseto_core::version::{Local, PkePublic, PkeSecret, Public, Purpose, SealingVersion, Secret, UnsealingVersion, Version};
use paseto_core::PasetoError;

/// Spec model of PAE, used as a `kani::stub` for `paseto_core::pae::pre_auth_encode` in protocol
/// harnesses (assume/guarantee: the C15 harnesses prove the real function issues exactly this write
/// sequence).  Index loops only.
pub fn pae_model<const N: usize>(pieces: [&[&[u8]]; N], mut out: impl paseto_core::pae::WriteBytes) {
    out.write(&(N as u64).to_le_bytes());
    let mut i = 0;
    while i < N {
        let piece = pieces[i];
        let mut len = 0u64;
        let mut j = 0;
        while j < piece.len() {
            len += piece[j].len() as u64;
            j += 1;
        }
        out.write(&len.to_le_bytes());
        let mut j = 0;
        while j < piece.len() {
            out.write(piece[j]);
            j += 1;
        }
        i += 1;
    }
}

pub fn forget<T>(r: Result<T, PasetoError>) -> Option<T> {
    match r {
        Ok(v) => Some(v),
        Err(e) => {
            core::mem::forget(e);
            None
        }
    }
}
pub fn is_ok<T>(r: Result<T, PasetoError>) -> bool {
    let ok = r.is_ok();
    core::mem::forget(r);
    ok
}
pub fn kind<T>(r: &Result<T, PasetoError>) -> u8 {
    match r {
        Ok(_) => 255,
        Err(PasetoError::Base64DecodeError) => 0,
        Err(PasetoError::InvalidKey) => 1,
        Err(PasetoError::InvalidToken) => 2,
        Err(PasetoError::CryptoError) => 3,
        Err(PasetoError::ClaimsError) => 4,
        Err(PasetoError::PayloadError(_)) => 5,
        Err(_) => 6,
    }
}
pub fn eq(a: &[u8], b: &[u8]) -> bool {
    if a.len() != b.len() {
        return false;
    }
    let mut e = true;
    let mut i = 0;
    while i < a.len() {
        e &= a[i] == b[i];
        i += 1;
    }
    e
}

/// equality of two byte strings that must both have the (concrete) length `n`: the loop bound is
/// `n`, not a length read from a value that went through a merged `Result`/`Option`
pub fn eqn(a: &[u8], b: &[u8], n: usize) -> bool {
    if a.len() != n || b.len() != n {
        return false;
    }
    let mut e = true;
    let mut i = 0;
    while i < n {
        e &= a[i] == b[i];
        i += 1;
    }
    e
}

/// Seal exactly as `UnsealedToken::seal` does: the library's own `V::nonce()` then the message.
pub fn seal_like_lib<V: SealingVersion<P>, P: Purpose>(
    key: &<V as HasKey<P::SealingKey>>::Key,
    msg: &[u8],
    footer: &[u8],
    aad: &[u8],
) -> Result<Vec<u8>, PasetoError> {
    let mut payload = V::nonce()?;
    payload.extend_from_slice(msg);
    V::dangerous_seal_with_nonce(key, "", payload, footer, aad)
}

// ------------------------------------------------------------------------------------------------
// C01: seal -> unseal returns the message (library nonce path), exact output length
// ------------------------------------------------------------------------------------------------
pub fn local_roundtrip<V: SealingVersion<Local>>(m: usize, f: usize, a: usize, overhead: usize) {
    let kb: [u8; 32] = kani::any();
    let msg = Bytes::any(m);
    let footer = Bytes::any(f);
    let aad = Bytes::any(a);
    let key = match forget(<V as HasKey<Local>>::decode(&kb)) {
        Some(k) => k,
        None => {
            assert!(false, "a 32-byte local key was rejected");
            return;
        }
    };
    let sealed = seal_like_lib::<V, Local>(&key, msg.s(), footer.s(), aad.s());
    let mut sealed = match forget(sealed) {
        Some(s) => s,
        None => {
            assert!(false, "sealing failed");
            return;
        }
    };
    assert!(sealed.len() == overhead + m, "sealed payload has the wrong length");
    let out = <V as UnsealingVersion<Local>>::unseal(&key, "", &mut sealed, footer.s(), aad.s());
    match forget(out) {
        Some(o) => {
            assert!(eq(o, msg.s()), "unsealed message differs from the sealed one");
            kani::cover!(true, "round trip reached");
        }
        None => assert!(false, "the library cannot unseal its own token"),
    }
    core::mem::forget(sealed);
}

/// versions without implicit assertions must refuse a non-empty one on both sides
pub fn local_aad_refused<V: SealingVersion<Local>>() {
    let kb: [u8; 32] = kani::any();
    let msg: [u8; 1] = kani::any();
    let aad: [u8; 1] = kani::any();
    let key = forget(<V as HasKey<Local>>::decode(&kb)).unwrap();
    let r = seal_like_lib::<V, Local>(&key, &msg, b"", &aad);
    assert!(kind(&r) == 4, "sealing with an implicit assertion must be a ClaimsError");
    core::mem::forget(r);
    let mut sealed = forget(seal_like_lib::<V, Local>(&key, &msg, b"", b"")).unwrap();
    let r2 = <V as UnsealingVersion<Local>>::unseal(&key, "", &mut sealed, b"", &aad);
    assert!(kind(&r2) == 4, "unsealing with an implicit assertion must be a ClaimsError");
    kani::cover!(true);
    core::mem::forget(r2);
    core::mem::forget(sealed);
}

// ------------------------------------------------------------------------------------------------
// C02 / C12: tampering.  `what`: 0 payload bit, 1 footer bit, 2 aad bit, 3 footer grows by a byte,
// 4 footer shrinks, 5 aad grows, 6 aad shrinks, 7 other key, 8 truncate by 1, 9 extend by 1,
// 10 move last footer byte to the front of the assertion, 11 move last message... (see harness)
// ------------------------------------------------------------------------------------------------
pub const SMAX: usize = 24;
/// symbolic bytes of *concrete* length N (0 allowed) without zero-sized symbolic arrays
pub struct Bytes {
    pub b: [u8; SMAX],
    pub n: usize,
}
impl Bytes {
    pub fn any(n: usize) -> Bytes {
        Bytes { b: kani::any(), n }
    }
    pub fn s(&self) -> &[u8] {
        &self.b[..self.n]
    }
}

/// tamper parameters, always drawn FIRST so that the counterexample's values sit at fixed positions
pub struct Tam {
    pub pos: usize,
    pub bit: u8,
    pub x: u8,
}
impl Tam {
    pub fn any() -> Tam {
        let pos: usize = kani::any();
        let bit: u8 = kani::any();
        let x: u8 = kani::any();
        kani::assume(bit < 8);
        Tam { pos, bit, x }
    }
}

pub struct Sealed<V: HasKey<Local>> {
    pub key: <V as HasKey<Local>>::Key,
    pub kb: [u8; 32],
    pub msg: Bytes,
    pub footer: Bytes,
    pub aad: Bytes,
    pub sealed: Vec<u8>,
}
pub fn sealed_local<V: SealingVersion<Local>>(m: usize, f: usize, a: usize) -> Sealed<V> {
    let kb: [u8; 32] = kani::any();
    let msg = Bytes::any(m);
    let footer = Bytes::any(f);
    let aad = Bytes::any(a);
    let key = forget(<V as HasKey<Local>>::decode(&kb)).unwrap();
    let sealed = match forget(seal_like_lib::<V, Local>(&key, msg.s(), footer.s(), aad.s())) {
        Some(s) => s,
        None => {
            kani::assume(false);
            unreachable!()
        }
    };
    Sealed { key, kb, msg, footer, aad, sealed }
}

/// one symbolic bit anywhere in the sealed payload (nonce, ciphertext, tag)
pub fn local_tamper_payload_bit<V: SealingVersion<Local>>(m: usize, f: usize, a: usize, keystream_applied: fn() -> usize) {
    let Tam { pos, bit, .. } = Tam::any();
    let mut s = sealed_local::<V>(m, f, a);
    kani::assume(pos < s.sealed.len());
    s.sealed[pos] ^= 1 << bit;
    let slen = s.sealed.len();
    let before = keystream_applied();
    vmodel::forbid(&s.sealed);
    let r = <V as UnsealingVersion<Local>>::unseal(&s.key, "", &mut s.sealed, s.footer.s(), s.aad.s());
    let k = kind(&r);
    assert!(k != 255, "a token with one flipped bit was accepted");
    // C12: verify-then-decrypt, and a crypto error (not a payload/claims error)
    assert!(keystream_applied() == before, "keystream applied to an unauthenticated token");
    assert!(k == 3, "error kind for a forged token is not CryptoError");
    kani::cover!(pos == 0, "first byte");
    kani::cover!(pos == slen - 1, "last byte");
    core::mem::forget(r);
    core::mem::forget(s.sealed);
}

/// Context tampering, one class per harness (W concrete, so every length stays concrete):
/// 0 footer bit, 1 assertion bit, 2 footer grows, 3 footer shrinks, 4 assertion grows, 5 assertion
/// shrinks, 6 last footer byte moves to the front of the assertion, 7 first assertion byte moves to
/// the end of the footer, 8 last ciphertext byte moves to the front of the footer, 9 first footer
/// byte moves to the end of the ciphertext, 10 truncate by one at the end, 11 at the front,
/// 12 extend at the end, 13 at the front, 14 any other key.   Sealed with f >= 1 and a >= 1 where needed.
pub fn local_tamper_class<V: SealingVersion<Local>, const W: u8>(m: usize, f: usize, a: usize, tag_len: usize) {
    let Tam { pos, bit, x } = Tam::any();
    let s = sealed_local::<V>(m, f, a);
    let n = s.sealed.len();
    let mut f2 = [0u8; SMAX + 2];
    let mut a2 = [0u8; SMAX + 2];
    let mut p2: Vec<u8> = Vec::with_capacity(n + 2);
    let (mut fl, mut al) = (f, a);
    f2[..f].copy_from_slice(s.footer.s());
    a2[..a].copy_from_slice(s.aad.s());
    let mut key2 = None;
    match W {
        8 => {
            let cut = n - tag_len - 1;
            p2.extend_from_slice(&s.sealed[..cut]);
            p2.extend_from_slice(&s.sealed[n - tag_len..]);
            f2[0] = s.sealed[cut];
            f2[1..f + 1].copy_from_slice(s.footer.s());
            fl = f + 1;
        }
        9 => {
            p2.extend_from_slice(&s.sealed[..n - tag_len]);
            p2.push(s.footer.b[0]);
            p2.extend_from_slice(&s.sealed[n - tag_len..]);
            f2[..f - 1].copy_from_slice(&s.footer.b[1..f]);
            fl = f - 1;
        }
        10 => p2.extend_from_slice(&s.sealed[..n - 1]),
        11 => p2.extend_from_slice(&s.sealed[1..]),
        12 => {
            p2.extend_from_slice(&s.sealed);
            p2.push(x);
        }
        13 => {
            p2.push(x);
            p2.extend_from_slice(&s.sealed);
        }
        _ => p2.extend_from_slice(&s.sealed),
    }
    match W {
        0 => {
            kani::assume(pos < f);
            f2[pos] ^= 1 << bit;
        }
        1 => {
            kani::assume(pos < a);
            a2[pos] ^= 1 << bit;
        }
        2 => {
            f2[f] = x;
            fl = f + 1;
        }
        3 => fl = f - 1,
        4 => {
            a2[a] = x;
            al = a + 1;
        }
        5 => al = a - 1,
        6 => {
            fl = f - 1;
            a2[0] = s.footer.b[f - 1];
            a2[1..a + 1].copy_from_slice(s.aad.s());
            al = a + 1;
        }
        7 => {
            f2[f] = s.aad.b[0];
            fl = f + 1;
            a2[..a - 1].copy_from_slice(&s.aad.b[1..a]);
            al = a - 1;
        }
        14 => {
            let kb2: [u8; 32] = kani::any();
            kani::assume(!eq(&kb2, &s.kb));
            key2 = forget(<V as HasKey<Local>>::decode(&kb2));
        }
        _ => {}
    }
    let key = match &key2 {
        Some(k) => k,
        None => &s.key,
    };
    vmodel::forbid(&p2);
    let r = <V as UnsealingVersion<Local>>::unseal(key, "", &mut p2, &f2[..fl], &a2[..al]);
    assert!(kind(&r) != 255, "token accepted under a different footer / assertion / boundary / length / key");
    kani::cover!(true, "tampered unseal reached");
    core::mem::forget(r);
    core::mem::forget(p2);
    core::mem::forget(s.sealed);
}

// ------------------------------------------------------------------------------------------------
// C04: arbitrary bytes into unseal never panic (run in full mode)
// ------------------------------------------------------------------------------------------------
pub fn local_unseal_arbitrary<V: UnsealingVersion<Local>, const N: usize>() {
    let kb: [u8; 32] = kani::any();
    let key = forget(<V as HasKey<Local>>::decode(&kb)).unwrap();
    let mut p: [u8; N] = kani::any();
    let f: [u8; 1] = kani::any();
    let r = <V as UnsealingVersion<Local>>::unseal(&key, "", &mut p, &f, b"");
    kani::cover!(r.is_err());
    core::mem::forget(r);
}

// ------------------------------------------------------------------------------------------------
// C16: RNG failure at any draw => Err, no output
// ------------------------------------------------------------------------------------------------
pub fn local_rng_fail_closed<V: SealingVersion<Local>>(arm: fn(usize), draws: fn() -> usize) {
    let kb: [u8; 32] = kani::any();
    let key = forget(<V as HasKey<Local>>::decode(&kb)).unwrap();
    let msg: [u8; 1] = kani::any();
    // the first (only) draw of nonce() fails
    arm(draws());
    let r = seal_like_lib::<V, Local>(&key, &msg, b"", b"");
    assert!(r.is_err(), "RNG failure was ignored: a token was produced");
    assert!(kind(&r) == 3);
    core::mem::forget(r);
    arm(draws());
    let k2 = <V as SealingVersion<Local>>::random();
    assert!(k2.is_err(), "key generation ignored an RNG failure");
    kani::cover!(k2.is_err(), "failure propagates");
    core::mem::forget(k2);
}

/// Freshness is inherited from the RNG: the nonce field of the token is an injective function of the
/// drawn bytes (v3/v4: equal to them), so two seals with different draws have different nonces.
pub fn local_nonce_is_draw<V: SealingVersion<Local>>(nonce_len: usize, last_draw: fn() -> [u8; 64]) {
    let n = forget(<V as SealingVersion<Local>>::nonce()).unwrap();
    assert!(n.len() == nonce_len);
    let d = last_draw();
    assert!(eq(&n, &d[..nonce_len]), "nonce is not the drawn randomness");
    kani::cover!(true);
    core::mem::forget(n);
}

/// `<*mut T>::is_null` / `<*const T>::is_null` as a pointer comparison.  std implements them as
/// `ptr.addr() == 0`, an integer comparison CBMC's symbolic execution cannot fold for the address of
/// a fresh allocation; every `LcPtr::new(..)?` of paseto-v3-aws-lc then forks an (infeasible) null
/// branch whose merged `Result<_, PasetoError>` carries an undetermined variant, and the drop glue of
/// that phantom `PasetoError` (Box<dyn Error>) does not terminate.  Same truth value, decidable form.
pub fn is_null_mut<T>(p: *mut T) -> bool {
    p == core::ptr::null_mut()
}
pub fn is_null_const<T>(p: *const T) -> bool {
    p == core::ptr::null()
}

/// Source of signing keys for the public-token harnesses (`crate::SECRET_SOURCE`):
///   0  `random()` (every backend whose key generation is straight-line);
///   2  `decode` of a fixed valid 48-byte scalar (a different one per call) — paseto-v3-aws-lc.
/// Why 2: aws-lc's `random()` is an unbounded rejection loop, and `decode` of symbolic bytes returns
/// `Result<SecretKey, PasetoError>` whose Ok arm holds an FFI *pointer*; after CBMC merges the Ok and
/// Err arms that pointer is `ite(valid, &key, <bytes of the Err variant>)`, every field read through
/// it is symbolic, every later `LcPtr::new(..)?` forks, and the drop glue of the phantom
/// `PasetoError`s (Box<dyn Error>) makes symbolic execution run out of memory (measured: >13 GB).
/// With a concrete scalar the validity test folds and the key pointer is concrete.  Within the ideal
/// model nothing is lost: the scalar only feeds the ideal functions, whose outputs (public key,
/// signatures) remain unconstrained symbolic values; parsing of arbitrary key bytes is covered by
/// the c08/c04 key-codec harnesses.
pub fn new_secret<V: SealingVersion<Public>>() -> Option<<V as HasKey<Secret>>::Key> {
    match crate::SECRET_SOURCE {
        0 => forget(<V as SealingVersion<Public>>::random()),
        2 => {
            static mut NTH: u8 = 0;
            let k = unsafe {
                NTH += 1;
                NTH
            };
            let b = [0x10u8 + k; 48];
            forget(<V as HasKey<Secret>>::decode(&b))
        }
        _ => unreachable!(),
    }
}

// ================================================================================================
// public purpose
// ================================================================================================
pub struct Signed<V: HasKey<Public> + HasKey<Secret>> {
    pub sk: <V as HasKey<Secret>>::Key,
    pub pk: <V as HasKey<Public>>::Key,
    pub msg: Bytes,
    pub footer: Bytes,
    pub aad: Bytes,
    pub sealed: Vec<u8>,
}
pub fn signed<V: SealingVersion<Public>>(m: usize, f: usize, a: usize, must_succeed: bool) -> Signed<V> {
    let msg = Bytes::any(m);
    let footer = Bytes::any(f);
    let aad = Bytes::any(a);
    let sk = match new_secret::<V>() {
        Some(k) => k,
        None => {
            assert!(!must_succeed, "key generation failed");
            kani::assume(false);
            unreachable!()
        }
    };
    let pk = <V as SealingVersion<Public>>::unsealing_key(&sk);
    let raw = match forget(seal_like_lib::<V, Public>(&sk, msg.s(), footer.s(), aad.s())) {
        Some(s) => s,
        None => {
            assert!(!must_succeed, "signing failed");
            kani::assume(false);
            unreachable!()
        }
    };
    // `raw` is the Ok arm of a merged Result: to CBMC its length is `ite(ok, n, <bytes of the Err
    // variant>)`.  Check the length the format prescribes, then continue with a copy whose length is
    // a constant (otherwise every length test downstream forks a phantom branch).
    let n = m + crate::PUBLIC_SIG_LEN;
    assert!(raw.len() == n, "signed payload has the wrong length");
    let mut sealed: Vec<u8> = Vec::with_capacity(n + 2);
    sealed.extend_from_slice(&raw[..n]);
    core::mem::forget(raw);
    Signed { sk, pk, msg, footer, aad, sealed }
}

pub fn public_roundtrip<V: SealingVersion<Public>>(m: usize, f: usize, a: usize, sig_len: usize) {
    let mut s = signed::<V>(m, f, a, true);
    assert!(s.sealed.len() == m + sig_len, "signed payload has the wrong length");
    assert!(eq(&s.sealed[..m], s.msg.s()), "signed payload does not start with the message");
    let out = <V as UnsealingVersion<Public>>::unseal(&s.pk, "", &mut s.sealed, s.footer.s(), s.aad.s());
    match forget(out) {
        Some(o) => {
            assert!(eq(o, s.msg.s()));
            kani::cover!(true, "round trip reached");
        }
        None => assert!(false, "the library cannot verify its own signature"),
    }
    core::mem::forget(s.sealed);
}

/// C01 (sealing half): signing never fails for a valid key and any message / footer / assertion, and
/// the signed payload is message ‖ signature of the prescribed length
pub fn public_seal_total<V: SealingVersion<Public>>(m: usize, f: usize, a: usize) {
    let s = signed::<V>(m, f, a, true);
    assert!(eqn(&s.sealed[..m], s.msg.s(), m), "signed payload does not start with the message");
    kani::cover!(true, "signing reached");
    core::mem::forget(s.sealed);
}

/// C03 (P-384 backends): every specification-conforming token is accepted — the (r, n - s) twin of a
/// valid ECDSA signature is a valid signature of the same message, so the token carrying it must
/// verify and yield the same message (the models' stand-in for n - s is the complement of s).
pub fn public_ecdsa_twin_accepted<V: SealingVersion<Public>>(m: usize, f: usize, a: usize) {
    let mut s = signed::<V>(m, f, a, false);
    let n = m + crate::PUBLIC_SIG_LEN;
    let mut i = n - 48;
    while i < n {
        s.sealed[i] = !s.sealed[i];
        i += 1;
    }
    let out = <V as UnsealingVersion<Public>>::unseal(&s.pk, "", &mut s.sealed, s.footer.s(), s.aad.s());
    match forget(out) {
        Some(o) => {
            assert!(eqn(o, s.msg.s(), m));
            kani::cover!(true, "twin accepted");
        }
        None => assert!(false, "a specification-conforming token (high-S / low-S twin) was rejected"),
    }
    core::mem::forget(s.sealed);
}

pub fn public_aad_refused<V: SealingVersion<Public>>() {
    let msg: [u8; 1] = kani::any();
    let aad: [u8; 1] = kani::any();
    let sk = new_secret::<V>().unwrap();
    let pk = <V as SealingVersion<Public>>::unsealing_key(&sk);
    let r = seal_like_lib::<V, Public>(&sk, &msg, b"", &aad);
    assert!(kind(&r) == 4);
    core::mem::forget(r);
    let mut sealed = forget(seal_like_lib::<V, Public>(&sk, &msg, b"", b"")).unwrap();
    let r2 = <V as UnsealingVersion<Public>>::unseal(&pk, "", &mut sealed, b"", &aad);
    assert!(kind(&r2) == 4);
    kani::cover!(true);
    core::mem::forget(r2);
    core::mem::forget(sealed);
}

pub fn public_tamper_payload_bit<V: SealingVersion<Public>>(m: usize, f: usize, a: usize) {
    let Tam { pos, bit, .. } = Tam::any();
    let mut s = signed::<V>(m, f, a, false);
    kani::assume(pos < s.sealed.len());
    s.sealed[pos] ^= 1 << bit;
    let slen = s.sealed.len();
    vmodel::forbid(&s.sealed);
    let r = <V as UnsealingVersion<Public>>::unseal(&s.pk, "", &mut s.sealed, s.footer.s(), s.aad.s());
    let k = kind(&r);
    assert!(k != 255, "a signed token with one flipped bit was accepted");
    assert!(k == 3 || k == 2, "error kind for a forged token is neither CryptoError nor InvalidToken");
    kani::cover!(pos == 0);
    kani::cover!(pos == slen - 1);
    core::mem::forget(r);
    core::mem::forget(s.sealed);
}

/// classes as in `local_tamper_class` (8/9: message|footer boundary; 14: another key pair)
pub fn public_tamper_class<V: SealingVersion<Public>, const W: u8>(m: usize, f: usize, a: usize) {
    let Tam { pos, bit, x } = Tam::any();
    let s = signed::<V>(m, f, a, false);
    let n = s.sealed.len();
    let mut f2 = [0u8; SMAX + 2];
    let mut a2 = [0u8; SMAX + 2];
    let mut p2: Vec<u8> = Vec::with_capacity(n + 2);
    let (mut fl, mut al) = (f, a);
    f2[..f].copy_from_slice(s.footer.s());
    a2[..a].copy_from_slice(s.aad.s());
    let mut other = None;
    match W {
        8 => {
            p2.extend_from_slice(&s.sealed[..m - 1]);
            p2.extend_from_slice(&s.sealed[m..]);
            f2[0] = s.sealed[m - 1];
            f2[1..f + 1].copy_from_slice(s.footer.s());
            fl = f + 1;
        }
        9 => {
            p2.extend_from_slice(&s.sealed[..m]);
            p2.push(s.footer.b[0]);
            p2.extend_from_slice(&s.sealed[m..]);
            f2[..f - 1].copy_from_slice(&s.footer.b[1..f]);
            fl = f - 1;
        }
        10 => p2.extend_from_slice(&s.sealed[..n - 1]),
        11 => p2.extend_from_slice(&s.sealed[1..]),
        12 => {
            p2.extend_from_slice(&s.sealed);
            p2.push(x);
        }
        13 => {
            p2.push(x);
            p2.extend_from_slice(&s.sealed);
        }
        _ => p2.extend_from_slice(&s.sealed),
    }
    match W {
        0 => {
            kani::assume(pos < f);
            f2[pos] ^= 1 << bit;
        }
        1 => {
            kani::assume(pos < a);
            a2[pos] ^= 1 << bit;
        }
        2 => {
            f2[f] = x;
            fl = f + 1;
        }
        3 => fl = f - 1,
        4 => {
            a2[a] = x;
            al = a + 1;
        }
        5 => al = a - 1,
        6 => {
            fl = f - 1;
            a2[0] = s.footer.b[f - 1];
            a2[1..a + 1].copy_from_slice(s.aad.s());
            al = a + 1;
        }
        7 => {
            f2[f] = s.aad.b[0];
            fl = f + 1;
            a2[..a - 1].copy_from_slice(&s.aad.b[1..a]);
            al = a - 1;
        }
        14 => {
            let sk2 = match new_secret::<V>() {
                Some(k) => k,
                None => {
                    kani::assume(false);
                    unreachable!()
                }
            };
            let pk2 = <V as SealingVersion<Public>>::unsealing_key(&sk2);
            let e1 = <V as HasKey<Public>>::encode(&s.pk);
            let e2 = <V as HasKey<Public>>::encode(&pk2);
            kani::assume(!eq(&e1, &e2));
            core::mem::forget((e1, e2));
            other = Some(pk2);
        }
        _ => {}
    }
    let pk = match &other {
        Some(k) => k,
        None => &s.pk,
    };
    vmodel::forbid(&p2);
    let r = <V as UnsealingVersion<Public>>::unseal(pk, "", &mut p2, &f2[..fl], &a2[..al]);
    assert!(kind(&r) != 255, "signed token accepted under a different footer / assertion / boundary / length / key");
    kani::cover!(true, "tampered verify reached");
    core::mem::forget(r);
    core::mem::forget(p2);
    core::mem::forget(s.sealed);
}

pub fn public_unseal_arbitrary<V: SealingVersion<Public>, const N: usize>() {
    let sk = match new_secret::<V>() {
        Some(k) => k,
        None => return,
    };
    let pk = <V as SealingVersion<Public>>::unsealing_key(&sk);
    let mut p: [u8; N] = kani::any();
    let f: [u8; 1] = kani::any();
    let r = <V as UnsealingVersion<Public>>::unseal(&pk, "", &mut p, &f, b"");
    kani::cover!(r.is_err());
    core::mem::forget(r);
}

pub fn public_rng_fail_closed<V: SealingVersion<Public>>(arm: fn(usize), draws: fn() -> usize) {
    arm(draws());
    let k = <V as SealingVersion<Public>>::random();
    assert!(k.is_err(), "key generation ignored an RNG failure");
    kani::cover!(k.is_err());
    core::mem::forget(k);
}

// ================================================================================================
// PASERK: PIE
// ================================================================================================
pub fn pie_roundtrip<V: PieWrapVersion, const KD: usize>(header: &'static str, overhead: usize) {
    let wkb: [u8; 32] = kani::any();
    let kd: [u8; KD] = kani::any();
    let wk = forget(<V as HasKey<Local>>::decode(&wkb)).unwrap();
    let mut v = Vec::with_capacity(KD);
    v.extend_from_slice(&kd);
    let mut out = match forget(V::pie_wrap_key(header, &wk, v)) {
        Some(o) => o,
        None => {
            assert!(false, "pie wrap failed");
            return;
        }
    };
    assert!(out.len() == overhead + KD, "wrapped key has the wrong length");
    match forget(V::pie_unwrap_key(header, &wk, &mut out)) {
        Some(k) => {
            assert!(eq(k, &kd), "unwrapped key differs");
            kani::cover!(true, "round trip reached");
        }
        None => assert!(false, "cannot unwrap own output"),
    }
    core::mem::forget(out);
}

/// W: 0 one symbolic bit anywhere, 1 header relabel, 2 another wrapping key, 3 truncate, 4 extend
pub fn pie_tamper<V: PieWrapVersion, const KD: usize, const W: u8>(header: &'static str, other_header: &'static str) {
    let Tam { pos, bit, x } = Tam::any();
    let wkb: [u8; 32] = kani::any();
    let kd: [u8; KD] = kani::any();
    let wk = forget(<V as HasKey<Local>>::decode(&wkb)).unwrap();
    let mut v = Vec::with_capacity(KD);
    v.extend_from_slice(&kd);
    let out = match forget(V::pie_wrap_key(header, &wk, v)) {
        Some(o) => o,
        None => {
            kani::assume(false);
            unreachable!()
        }
    };
    let n = out.len();
    let mut b: Vec<u8> = Vec::with_capacity(n + 2);
    b.extend_from_slice(&out);
    let mut hdr = header;
    let mut wk2 = None;
    match W {
        0 => {
            kani::assume(pos < n);
            b[pos] ^= 1 << bit;
        }
        1 => hdr = other_header,
        2 => {
            let kb2: [u8; 32] = kani::any();
            kani::assume(!eq(&kb2, &wkb));
            wk2 = forget(<V as HasKey<Local>>::decode(&kb2));
        }
        3 => b.truncate(n - 1),
        _ => b.push(x),
    }
    let k = match &wk2 {
        Some(k) => k,
        None => &wk,
    };
    vmodel::forbid(&b);
    let r = V::pie_unwrap_key(hdr, k, &mut b);
    assert!(kind(&r) != 255, "tampered / relabelled PIE blob or wrong key accepted");
    kani::cover!(W != 0 || pos == n - 1, "tampered unwrap reached (class 0: last byte)");
    core::mem::forget(r);
    core::mem::forget(b);
    core::mem::forget(out);
}

pub fn pie_unwrap_arbitrary<V: PieWrapVersion, const N: usize>(header: &'static str) {
    let wkb: [u8; 32] = kani::any();
    let wk = forget(<V as HasKey<Local>>::decode(&wkb)).unwrap();
    let mut p: [u8; N] = kani::any();
    let r = V::pie_unwrap_key(header, &wk, &mut p);
    kani::cover!(r.is_err());
    core::mem::forget(r);
}

pub fn pie_rng_fail_closed<V: PieWrapVersion>(header: &'static str, arm: fn(usize), draws: fn() -> usize) {
    let wkb: [u8; 32] = kani::any();
    let wk = forget(<V as HasKey<Local>>::decode(&wkb)).unwrap();
    let mut v = Vec::with_capacity(4);
    v.extend_from_slice(&[1, 2, 3, 4]);
    arm(draws());
    let r = V::pie_wrap_key(header, &wk, v);
    assert!(r.is_err(), "PIE wrap ignored an RNG failure");
    kani::cover!(r.is_err());
    core::mem::forget(r);
}

// ================================================================================================
// PASERK: PBKW
// ================================================================================================
/// `prefix_len`/`params_off`/`params_len`: layout of the backend's Prefix struct, used to obtain an
/// arbitrary `V::Params` through the backend's own `get_params` parser.
pub fn pw_params_from_bytes<V: PwWrapVersion, const PL: usize>(params_off: usize, pbytes: &[u8]) -> Option<V::Params> {
    let mut blob = [0u8; PL];
    let mut i = 0;
    while i < pbytes.len() {
        blob[params_off + i] = pbytes[i];
        i += 1;
    }
    forget(V::get_params(&blob))
}

pub fn pw_roundtrip<V: PwWrapVersion, const KD: usize>(pw: usize, header: &'static str, overhead: usize, params: Option<V::Params>) {
    let pass_b = Bytes::any(pw);
    let pass = pass_b.s();
    let kd: [u8; KD] = kani::any();
    let defaults = params.is_none();
    let params = match params {
        Some(p) => p,
        None => V::Params::default(),
    };
    let mut v = Vec::with_capacity(KD);
    v.extend_from_slice(&kd);
    let wrapped = V::pw_wrap_key(header, pass, &params, v);
    let mut out = match forget(wrapped) {
        Some(o) => o,
        None => {
            // only caller-chosen (possibly invalid) parameters may be refused
            assert!(!defaults, "password wrap with default parameters failed");
            return;
        }
    };
    assert!(out.len() == overhead + KD, "password-wrapped key has the wrong length");
    match forget(V::pw_unwrap_key(header, pass, &mut out)) {
        Some(k) => {
            assert!(eq(k, &kd), "unwrapped key differs");
            kani::cover!(true, "round trip reached");
        }
        None => assert!(false, "cannot unwrap own output"),
    }
    core::mem::forget(out);
}

pub fn pw_default_must_succeed<V: PwWrapVersion>(header: &'static str) {
    let pass: [u8; 2] = kani::any();
    let mut v = Vec::with_capacity(4);
    v.extend_from_slice(&[9, 8, 7, 6]);
    let r = V::pw_wrap_key(header, &pass, &V::Params::default(), v);
    assert!(r.is_ok(), "password wrap with default parameters failed");
    kani::cover!(r.is_ok());
    core::mem::forget(r);
}

/// W: 0 one symbolic bit anywhere (salt, params, nonce, ciphertext, tag), 1 header relabel,
/// 2 another password of the same length, 3 password extended, 4 password shortened, 5 truncate, 6 extend
pub fn pw_tamper<V: PwWrapVersion, const KD: usize, const W: u8>(header: &'static str, other_header: &'static str) {
    let Tam { pos, bit, x } = Tam::any();
    let pass: [u8; 2] = kani::any();
    let kd: [u8; KD] = kani::any();
    let mut v = Vec::with_capacity(KD);
    v.extend_from_slice(&kd);
    let out = match forget(V::pw_wrap_key(header, &pass, &V::Params::default(), v)) {
        Some(o) => o,
        None => {
            kani::assume(false);
            unreachable!()
        }
    };
    let n = out.len();
    let mut b: Vec<u8> = Vec::with_capacity(n + 2);
    b.extend_from_slice(&out);
    let mut hdr = header;
    let mut p2 = [pass[0], pass[1], 0];
    let mut pl = 2;
    match W {
        0 => {
            kani::assume(pos < n);
            b[pos] ^= 1 << bit;
        }
        1 => hdr = other_header,
        2 => {
            let q: [u8; 2] = kani::any();
            kani::assume(q[0] != pass[0] || q[1] != pass[1]);
            p2[0] = q[0];
            p2[1] = q[1];
        }
        3 => {
            p2[2] = x;
            pl = 3;
        }
        4 => pl = 1,
        5 => b.truncate(n - 1),
        _ => b.push(x),
    }
    vmodel::forbid(&b);
    let r = V::pw_unwrap_key(hdr, &p2[..pl], &mut b);
    assert!(kind(&r) != 255, "tampered / relabelled PBKW blob or wrong password accepted");
    kani::cover!(W != 0 || pos == n - 1, "tampered unwrap reached (class 0: last byte)");
    core::mem::forget(r);
    core::mem::forget(b);
    core::mem::forget(out);
}

pub fn pw_unwrap_arbitrary<V: PwWrapVersion, const N: usize>(header: &'static str) {
    let pass: [u8; 1] = kani::any();
    let mut p: [u8; N] = kani::any();
    let g = V::get_params(&p);
    core::mem::forget(g);
    let r = V::pw_unwrap_key(header, &pass, &mut p);
    kani::cover!(r.is_err());
    core::mem::forget(r);
}

pub fn pw_rng_fail_closed<V: PwWrapVersion, const AT: usize>(header: &'static str, arm: fn(usize), draws: fn() -> usize) {
    let mut v = Vec::with_capacity(4);
    v.extend_from_slice(&[1, 2, 3, 4]);
    arm(draws() + AT);
    let r = V::pw_wrap_key(header, b"pw", &V::Params::default(), v);
    assert!(r.is_err(), "password wrap ignored an RNG failure");
    kani::cover!(r.is_err());
    core::mem::forget(r);
}

/// the same with caller-supplied cost parameters (see the v2/v4 harness crates: byte-palindromic
/// 32-bit fields, which the engine reads correctly in either byte order)
pub fn pw_rng_fail_closed_with<V: PwWrapVersion, const AT: usize>(header: &'static str, arm: fn(usize), draws: fn() -> usize, params: V::Params) {
    let mut v = Vec::with_capacity(4);
    v.extend_from_slice(&[1, 2, 3, 4]);
    arm(draws() + AT);
    let r = V::pw_wrap_key(header, b"pw", &params, v);
    assert!(r.is_err(), "password wrap ignored an RNG failure");
    kani::cover!(r.is_err());
    core::mem::forget(r);
}

// ================================================================================================
// PASERK: PKE
// ================================================================================================
pub struct Recipient<V: HasKey<PkePublic> + HasKey<PkeSecret>> {
    pub pk: <V as HasKey<PkePublic>>::Key,
    pub sk: <V as HasKey<PkeSecret>>::Key,
}

pub fn pke_roundtrip<V: PkeSealingVersion + PkeUnsealingVersion>(rcpt: Recipient<V>, out_len: usize) {
    let kb: [u8; 32] = kani::any();
    let key = forget(<V as HasKey<Local>>::decode(&kb)).unwrap();
    let sealed = match forget(V::seal_key(&rcpt.pk, key)) {
        Some(s) => s,
        None => {
            assert!(false, "seal_key failed");
            return;
        }
    };
    assert!(sealed.len() == out_len, "sealed key has the wrong length");
    match forget(V::unseal_key(&rcpt.sk, sealed)) {
        Some(k) => {
            let e = <V as HasKey<Local>>::encode(&k);
            assert!(eq(&e, &kb), "unsealed key differs");
            kani::cover!(true, "round trip reached");
            core::mem::forget(e);
        }
        None => assert!(false, "cannot unseal own output"),
    }
}

/// W: 0 one symbolic bit anywhere (tag, ephemeral key, encrypted key), 1 another recipient, 2 truncate, 3 extend
pub fn pke_tamper<V: PkeSealingVersion + PkeUnsealingVersion, const W: u8>(tam: Tam, rcpt: Recipient<V>, other: Option<Recipient<V>>) {
    let Tam { pos, bit, x } = tam;
    let kb: [u8; 32] = kani::any();
    let key = forget(<V as HasKey<Local>>::decode(&kb)).unwrap();
    let sealed = match forget(V::seal_key(&rcpt.pk, key)) {
        Some(s) => s,
        None => {
            kani::assume(false);
            unreachable!()
        }
    };
    let n = sealed.len();
    let mut b: Vec<u8> = Vec::with_capacity(n + 2);
    b.extend_from_slice(&sealed);
    match W {
        0 => {
            kani::assume(pos < n);
            b[pos] ^= 1 << bit;
        }
        1 => {}
        2 => b.truncate(n - 1),
        _ => b.push(x),
    }
    let sk = match (&other, W) {
        (Some(o), 1) => {
            // "another recipient" means another key pair
            let e1 = <V as HasKey<PkePublic>>::encode(&rcpt.pk);
            let e2 = <V as HasKey<PkePublic>>::encode(&o.pk);
            kani::assume(!eq(&e1, &e2));
            core::mem::forget((e1, e2));
            &o.sk
        }
        _ => &rcpt.sk,
    };
    vmodel::forbid(&b);
    let r = V::unseal_key(sk, b.into_boxed_slice());
    assert!(kind(&r) != 255, "tampered sealed key or wrong recipient accepted");
    kani::cover!(W != 0 || pos == n - 1, "tampered unseal reached (class 0: last byte)");
    core::mem::forget(r);
    core::mem::forget(sealed);
}

pub fn pke_unseal_arbitrary<V: PkeUnsealingVersion, const N: usize>(sk: <V as HasKey<PkeSecret>>::Key) {
    let p: [u8; N] = kani::any();
    let mut v = Vec::with_capacity(N);
    v.extend_from_slice(&p);
    let r = V::unseal_key(&sk, v.into_boxed_slice());
    kani::cover!(r.is_err());
    core::mem::forget(r);
}

// ================================================================================================
// C08: key codecs;  C13: key-id transcript
// ================================================================================================
/// local keys: exactly 32 bytes are accepted; encode(decode(b)) == b; clone encodes identically
pub fn local_key_codec<V: HasKey<Local>, const N: usize>()
where
    <V as HasKey<Local>>::Key: Clone,
{
    let b: [u8; N] = kani::any();
    let r = <V as HasKey<Local>>::decode(&b);
    assert!(r.is_ok() == (N == 32), "local key length is not enforced to be exactly 32");
    if let Some(k) = forget(r) {
        let e = <V as HasKey<Local>>::encode(&k);
        assert!(eq(&e, &b), "encode(decode(bytes)) differs from bytes");
        let e2 = <V as HasKey<Local>>::encode(&k.clone());
        assert!(eq(&e2, &b), "a cloned key encodes differently");
        core::mem::forget((e, e2));
    }
    kani::cover!(true);
}

/// generated signing keys: public/secret encodings have the prescribed lengths, survive
/// decode -> encode unchanged, clones encode identically, and (when the secret encoding embeds the
/// public key: `pub_in_secret_at`) that half equals the derived public key
pub fn signing_key_codec<V: SealingVersion<Public> + HasKey<Secret>, const PART: u8>(pub_len: usize, sec_len: usize, pub_in_secret_at: Option<usize>)
where
    <V as HasKey<Public>>::Key: Clone,
    <V as HasKey<Secret>>::Key: Clone,
{
    let sk = match new_secret::<V>() {
        Some(k) => k,
        None => {
            kani::assume(false);
            unreachable!()
        }
    };
    let pk = <V as SealingVersion<Public>>::unsealing_key(&sk);
    let ep = <V as HasKey<Public>>::encode(&pk);
    assert!(ep.len() == pub_len, "public key encoding has the wrong length");
    if PART == 0 {
        match forget(<V as HasKey<Public>>::decode(&ep)) {
            Some(p2) => {
                let e2 = <V as HasKey<Public>>::encode(&p2);
                assert!(eqn(&e2, &ep, pub_len), "public key changes across serialisation");
                let e3 = <V as HasKey<Public>>::encode(&p2.clone());
                assert!(eqn(&e3, &ep, pub_len), "cloned public key encodes differently");
                core::mem::forget((e2, e3));
            }
            None => assert!(false, "the library rejects its own public key encoding"),
        }
    } else {
        let es = <V as HasKey<Secret>>::encode(&sk);
        assert!(es.len() == sec_len, "secret key encoding has the wrong length");
        match forget(<V as HasKey<Secret>>::decode(&es)) {
            Some(s2) => {
                let e2 = <V as HasKey<Secret>>::encode(&s2);
                assert!(eqn(&e2, &es, sec_len), "secret key changes across serialisation");
                if PART == 1 {
                    let e3 = <V as HasKey<Secret>>::encode(&s2.clone());
                    assert!(eqn(&e3, &es, sec_len), "cloned secret key encodes differently");
                    core::mem::forget(e3);
                } else {
                    // the re-parsed secret key derives the same public key
                    let p3 = <V as SealingVersion<Public>>::unsealing_key(&s2);
                    let e4 = <V as HasKey<Public>>::encode(&p3);
                    assert!(eqn(&e4, &ep, pub_len), "re-parsed secret key derives a different public key");
                    core::mem::forget(e4);
                }
                core::mem::forget(e2);
            }
            None => assert!(false, "the library rejects its own secret key encoding"),
        }
        if let Some(at) = pub_in_secret_at {
            assert!(es.len() == at + pub_len);
            assert!(eqn(&es[at..at + pub_len], &ep, pub_len), "public half of the secret key encoding is not the derived public key");
        }
        core::mem::forget(es);
    }
    kani::cover!(true);
    core::mem::forget(ep);
}

/// byte strings of a wrong length are never accepted as public / secret keys
pub fn asym_key_wrong_len<V: HasKey<Public> + HasKey<Secret>, const N: usize>(pub_lens: &[usize], sec_lens: &[usize]) {
    let b: [u8; N] = kani::any();
    let mut pub_ok = false;
    let mut i = 0;
    while i < pub_lens.len() {
        pub_ok |= pub_lens[i] == N;
        i += 1;
    }
    let mut sec_ok = false;
    let mut i = 0;
    while i < sec_lens.len() {
        sec_ok |= sec_lens[i] == N;
        i += 1;
    }
    let p = <V as HasKey<Public>>::decode(&b);
    if !pub_ok {
        assert!(p.is_err(), "a byte string of the wrong length was accepted as a public key");
    }
    let s = <V as HasKey<Secret>>::decode(&b);
    if !sec_ok {
        assert!(s.is_err(), "a byte string of the wrong length was accepted as a secret key");
    }
    kani::cover!(true);
    core::mem::forget((p, s));
}

/// C10 / C08: the PKE key kinds (which share the `.public.` / `.secret.` text headers) reject byte
/// strings of another kind's length (32 = local key, 33 = key id, secret length - 1)
pub fn pke_key_wrong_len<V: HasKey<PkePublic> + HasKey<PkeSecret>, const N: usize>(pub_lens: &[usize], sec_lens: &[usize]) {
    let b: [u8; N] = kani::any();
    let mut pub_ok = false;
    let mut i = 0;
    while i < pub_lens.len() {
        pub_ok |= pub_lens[i] == N;
        i += 1;
    }
    let mut sec_ok = false;
    let mut i = 0;
    while i < sec_lens.len() {
        sec_ok |= sec_lens[i] == N;
        i += 1;
    }
    let p = <V as HasKey<PkePublic>>::decode(&b);
    if !pub_ok {
        assert!(p.is_err(), "a byte string of the wrong length was accepted as a PKE public key");
    }
    let s = <V as HasKey<PkeSecret>>::decode(&b);
    if !sec_ok {
        assert!(s.is_err(), "a byte string of the wrong length was accepted as a PKE secret key");
    }
    kani::cover!(true);
    core::mem::forget((p, s));
}

/// C13: hash_key feeds the hash exactly  model_prefix ‖ paserk_header ‖ id_header ‖ key_data  and
/// the id is the first 33 bytes of the digest
pub fn id_transcript<V: IdVersion>(dom: u8, model_prefix: &[u8], paserk_header: &[u8], id_header: &'static str) {
    let data: [u8; 9] = kani::any();
    let id = V::hash_key(id_header, &data);
    let q = vmodel::queries();
    assert!(q >= 1);
    let e = vmodel::query(q - 1);
    let mut want = vmodel::Transcript::new();
    want.absorb(model_prefix);
    want.absorb(paserk_header);
    want.absorb(id_header.as_bytes());
    want.absorb(&data);
    assert!(e.dom == dom && eq(e.t.bytes(), want.bytes()), "key id is not the digest of paserk header ‖ id header ‖ key text");
    assert!(eq(&id, &e.out[..33]), "key id is not the first 33 bytes of the digest");
    kani::cover!(true);
}


/// C04/C08: the empty byte string offered as a key of every kind is rejected without panicking
pub fn key_decode_empty<V: HasKey<Local> + HasKey<Public> + HasKey<Secret>>() {
    let e: [u8; 1] = [0];
    let empty = &e[..0];
    let a = <V as HasKey<Local>>::decode(empty);
    let b = <V as HasKey<Public>>::decode(empty);
    let c = <V as HasKey<Secret>>::decode(empty);
    assert!(a.is_err() && b.is_err() && c.is_err(), "the empty byte string was accepted as a key");
    kani::cover!(true);
    core::mem::forget((a, b, c));
}

/// C05/C07: PBKW cost parameters.  `valid` is the specification's verdict on the (symbolic) parameter
/// block; the KDF model is told to stop the path when it is reached (`abort_kdf`), so only the
/// parameter handling of pw_wrap_key is explored: the KDF is reached iff the parameters are valid.
pub fn pw_param_domain<V: PwWrapVersion>(header: &'static str, params: V::Params, valid: bool, kdf_calls: fn() -> usize) {
    let mut v = Vec::with_capacity(4);
    v.extend_from_slice(&[1, 2, 3, 4]);
    let before = kdf_calls();
    let r = V::pw_wrap_key(header, b"pw", &params, v);
    // every path that comes back here did not reach the KDF (the model aborts paths that do)
    assert!(kdf_calls() == before);
    assert!(r.is_err(), "wrap returned Ok without calling the KDF");
    assert!(!valid, "valid cost parameters were refused");
    kani::cover!(true, "some parameter block is refused");
    core::mem::forget(r);
}
