//! One instantiation list for every backend: `instantiate!{ V = <type>; ... }` expands to the L2
//! harnesses of harness/common/l2.rs at that backend's sizes.  Harness names are identical across
//! backends, so lib/specs.py derives the per-backend tables mechanically.
#[macro_export]
macro_rules! h {
    ($name:ident, $body:expr) => {
        #[kani::proof]
        #[kani::unwind(150)]
        #[kani::stub(paseto_core::pae::pre_auth_encode, crate::l2::pae_model)]
        #[kani::stub(<*mut u8>::is_null, crate::l2::is_null_mut)]
        #[kani::stub(<*const u8>::is_null, crate::l2::is_null_const)]
        pub fn $name() {
            setup();
            $body
        }
    };
}
#[macro_export]
macro_rules! classes {
    ($fam:ident, $v:ty, $($name:ident = $w:literal),*; $args:tt) => {$(
        $crate::h!($name, $fam::<$v, $w> $args);
    )*};
}

/// local-token harnesses common to every version; A = assertion length used (0 for v1/v2)
#[macro_export]
macro_rules! instantiate_local {
    (V = $v:ty, NONCE = $nonce:expr, TAG = $tag:expr, A = $a:expr, KS = $ks:expr, ARM = $arm:expr, DRAWS = $draws:expr) => {
        // C01 — local
        $crate::h!(local_roundtrip_m0_f0_a0, local_roundtrip::<$v>(0, 0, 0, $nonce + $tag));
        $crate::h!(local_roundtrip_m3_f2, local_roundtrip::<$v>(3, 2, $a, $nonce + $tag));
        $crate::h!(local_roundtrip_m17_f0, local_roundtrip::<$v>(17, 0, 0, $nonce + $tag));
        $crate::h!(local_roundtrip_m33_f1, local_roundtrip::<$v>(33, 1, $a, $nonce + $tag));
        // C02 / C12 — local
        $crate::h!(local_tamper_payload_bit_m2, local_tamper_payload_bit::<$v>(2, 1, 0, $ks));
        $crate::classes!(local_tamper_class, $v,
            local_tamper_w0_footer_bit = 0, local_tamper_w2_footer_grow = 2, local_tamper_w3_footer_shrink = 3,
            local_tamper_w8_ct_to_footer = 8, local_tamper_w9_footer_to_ct = 9, local_tamper_w10_trunc_end = 10,
            local_tamper_w11_trunc_front = 11, local_tamper_w12_extend_end = 12, local_tamper_w13_extend_front = 13,
            local_tamper_w14_other_key = 14;
            (2, 2, $a, $tag));
        // C16
        $crate::h!(local_rng_fail_closed_, local_rng_fail_closed::<$v>($arm, $draws));
        // C04 (full mode)
        $crate::h!(local_unseal_arbitrary_n0, local_unseal_arbitrary::<$v, 0>());
        $crate::h!(local_unseal_arbitrary_below, local_unseal_arbitrary::<$v, { $nonce + $tag - 1 }>());
        $crate::h!(local_unseal_arbitrary_min, local_unseal_arbitrary::<$v, { $nonce + $tag }>());
        $crate::h!(local_unseal_arbitrary_above, local_unseal_arbitrary::<$v, { $nonce + $tag + 2 }>());
    };
}
#[macro_export]
macro_rules! instantiate_public {
    (V = $v:ty, SIG = $sig:expr, A = $a:expr) => {
        $crate::h!(public_roundtrip_m0_f0_a0, public_roundtrip::<$v>(0, 0, 0, $sig));
        $crate::h!(public_roundtrip_m3_f2, public_roundtrip::<$v>(3, 2, $a, $sig));
        $crate::h!(public_seal_total_m3_f2, public_seal_total::<$v>(3, 2, $a));
        $crate::h!(public_tamper_payload_bit_m2, public_tamper_payload_bit::<$v>(2, 1, 0));
        $crate::classes!(public_tamper_class, $v,
            public_tamper_w0_footer_bit = 0, public_tamper_w2_footer_grow = 2, public_tamper_w3_footer_shrink = 3,
            public_tamper_w8_msg_to_footer = 8, public_tamper_w9_footer_to_msg = 9, public_tamper_w10_trunc_end = 10,
            public_tamper_w11_trunc_front = 11, public_tamper_w12_extend_end = 12, public_tamper_w13_extend_front = 13,
            public_tamper_w14_other_key = 14;
            (2, 2, $a));
        $crate::h!(public_unseal_arbitrary_n0, public_unseal_arbitrary::<$v, 0>());
        $crate::h!(public_unseal_arbitrary_below, public_unseal_arbitrary::<$v, { $sig - 1 }>());
        $crate::h!(public_unseal_arbitrary_above, public_unseal_arbitrary::<$v, { $sig + 1 }>());
    };
}
#[macro_export]
macro_rules! instantiate_tokens {
    (V = $v:ty, NONCE = $nonce:expr, TAG = $tag:expr, SIG = $sig:expr, A = $a:expr, KS = $ks:expr, ARM = $arm:expr, DRAWS = $draws:expr) => {
        $crate::instantiate_local!(V = $v, NONCE = $nonce, TAG = $tag, A = $a, KS = $ks, ARM = $arm, DRAWS = $draws);
        $crate::instantiate_public!(V = $v, SIG = $sig, A = $a);
    };
}

/// versions with implicit assertions (v3, v4): assertion tamper classes
#[macro_export]
macro_rules! instantiate_aad {
    (V = $v:ty, TAG = $tag:expr) => {
        $crate::classes!(local_tamper_class, $v,
            local_tamper_w1_aad_bit = 1, local_tamper_w4_aad_grow = 4, local_tamper_w5_aad_shrink = 5,
            local_tamper_w6_footer_to_aad = 6, local_tamper_w7_aad_to_footer = 7;
            (2, 2, 2, $tag));
        $crate::classes!(public_tamper_class, $v,
            public_tamper_w1_aad_bit = 1, public_tamper_w4_aad_grow = 4, public_tamper_w5_aad_shrink = 5,
            public_tamper_w6_footer_to_aad = 6, public_tamper_w7_aad_to_footer = 7;
            (2, 2, 2));
    };
}
/// versions without implicit assertions (v1, v2)
#[macro_export]
macro_rules! instantiate_noaad {
    (V = $v:ty) => {
        $crate::h!(local_aad_refused_, local_aad_refused::<$v>());
        $crate::h!(public_aad_refused_, public_aad_refused::<$v>());
    };
    (V = $v:ty, LOCAL_ONLY) => {
        $crate::h!(local_aad_refused_, local_aad_refused::<$v>());
    };
}

#[macro_export]
macro_rules! instantiate_paserk {
    (V = $v:ty, PIE_OVER = $pie:expr, SECRET_LEN = $sl:expr, PW_PREFIX = $pwp:expr, PW_OVER = $pwo:expr, PW_PARAMS_OFF = $poff:expr, PW_PARAMS_LEN = $plen:expr,
     ARM = $arm:expr, DRAWS = $draws:expr) => {
        const LW: &str = ".local-wrap.pie.";
        const SW: &str = ".secret-wrap.pie.";
        $crate::h!(pie_roundtrip_local, pie_roundtrip::<$v, 32>(LW, $pie));
        $crate::h!(pie_roundtrip_secret, pie_roundtrip::<$v, $sl>(SW, $pie));
        $crate::h!(pie_tamper_w0_bit, pie_tamper::<$v, 32, 0>(LW, SW));
        $crate::h!(pie_tamper_w1_relabel, pie_tamper::<$v, 32, 1>(LW, SW));
        $crate::h!(pie_tamper_w2_other_key, pie_tamper::<$v, 32, 2>(LW, SW));
        $crate::h!(pie_tamper_w3_trunc, pie_tamper::<$v, 32, 3>(LW, SW));
        $crate::h!(pie_tamper_w4_extend, pie_tamper::<$v, 32, 4>(LW, SW));
        $crate::h!(pie_rng_fail_closed_, pie_rng_fail_closed::<$v>(LW, $arm, $draws));
        $crate::h!(pie_unwrap_arbitrary_n0, pie_unwrap_arbitrary::<$v, 0>(LW));
        $crate::h!(pie_unwrap_arbitrary_below, pie_unwrap_arbitrary::<$v, { $pie - 1 }>(LW));
        $crate::h!(pie_unwrap_arbitrary_above, pie_unwrap_arbitrary::<$v, { $pie + 1 }>(LW));

        const LP: &str = ".local-pw.";
        const SP: &str = ".secret-pw.";
        $crate::h!(pw_roundtrip_local_default, pw_roundtrip::<$v, 32>(2, LP, $pwo, None));
        $crate::h!(pw_roundtrip_secret_default_pw0, pw_roundtrip::<$v, $sl>(0, SP, $pwo, None));
        $crate::h!(pw_default_must_succeed_, pw_default_must_succeed::<$v>(LP));
        $crate::h!(pw_roundtrip_local_symbolic_params, {
            let pb: [u8; $plen] = kani::any();
            let p = pw_params_from_bytes::<$v, $pwp>($poff, &pb);
            assert!(p.is_some());
            pw_roundtrip::<$v, 32>(1, LP, $pwo, p)
        });
        $crate::h!(pw_tamper_w0_bit, pw_tamper::<$v, 32, 0>(LP, SP));
        $crate::h!(pw_tamper_w1_relabel, pw_tamper::<$v, 32, 1>(LP, SP));
        $crate::h!(pw_tamper_w2_other_pw, pw_tamper::<$v, 32, 2>(LP, SP));
        $crate::h!(pw_tamper_w3_pw_longer, pw_tamper::<$v, 32, 3>(LP, SP));
        $crate::h!(pw_tamper_w4_pw_shorter, pw_tamper::<$v, 32, 4>(LP, SP));
        $crate::h!(pw_tamper_w5_trunc, pw_tamper::<$v, 32, 5>(LP, SP));
        $crate::h!(pw_tamper_w6_extend, pw_tamper::<$v, 32, 6>(LP, SP));
        $crate::h!(pw_unwrap_arbitrary_n0, pw_unwrap_arbitrary::<$v, 0>(LP));
        $crate::h!(pw_unwrap_arbitrary_below, pw_unwrap_arbitrary::<$v, { $pwo - 1 }>(LP));
        $crate::h!(pw_unwrap_arbitrary_above, pw_unwrap_arbitrary::<$v, { $pwo + 1 }>(LP));
    };
}

#[macro_export]
macro_rules! instantiate_pke {
    (V = $v:ty, PKE_LEN = $len:expr, RCPT = $rcpt:expr, ARM = $arm:expr, DRAWS = $draws:expr) => {
        $crate::h!(pke_roundtrip_, pke_roundtrip::<$v>($rcpt, $len));
        $crate::h!(pke_tamper_w0_bit, { let t = Tam::any(); pke_tamper::<$v, 0>(t, $rcpt, None) });
        $crate::h!(pke_tamper_w1_other_rcpt, { let t = Tam::any(); pke_tamper::<$v, 1>(t, $rcpt, Some($rcpt)) });
        $crate::h!(pke_tamper_w2_trunc, { let t = Tam::any(); pke_tamper::<$v, 2>(t, $rcpt, None) });
        $crate::h!(pke_tamper_w3_extend, { let t = Tam::any(); pke_tamper::<$v, 3>(t, $rcpt, None) });
        $crate::h!(pke_unseal_arbitrary_below, pke_unseal_arbitrary::<$v, { $len - 1 }>($rcpt.sk));
        $crate::h!(pke_unseal_arbitrary_exact, pke_unseal_arbitrary::<$v, { $len }>($rcpt.sk));
        $crate::h!(pke_unseal_arbitrary_above, pke_unseal_arbitrary::<$v, { $len + 1 }>($rcpt.sk));
    };
}

#[macro_export]
macro_rules! instantiate_keys {
    (V = $v:ty, PUB_LEN = $pl:expr, SEC_LEN = $sl:expr, PUB_IN_SECRET = $pis:expr, PUB_LENS = $pls:expr, ID_DOM = $dom:expr, ID_PREFIX = $pfx:expr, PASERK = $pk:expr) => {
        $crate::h!(c08_local_key_codec_n32, local_key_codec::<$v, 32>());
        $crate::h!(c08_local_key_codec_n31, local_key_codec::<$v, 31>());
        $crate::h!(c08_local_key_codec_n33, local_key_codec::<$v, 33>());
        $crate::h!(c08_local_key_codec_n64, local_key_codec::<$v, 64>());
        $crate::h!(c08_signing_key_codec_public, signing_key_codec::<$v, 0>($pl, $sl, $pis));
        $crate::h!(c08_signing_key_codec_secret, signing_key_codec::<$v, 1>($pl, $sl, $pis));
        $crate::h!(c08_signing_key_codec_rederive, signing_key_codec::<$v, 2>($pl, $sl, $pis));
        $crate::h!(c08_asym_wrong_len_short, asym_key_wrong_len::<$v, { $pl - 1 }>($pls, &[$sl]));
        $crate::h!(c08_asym_wrong_len_long, asym_key_wrong_len::<$v, { $sl + 1 }>($pls, &[$sl]));
        $crate::h!(c08_asym_wrong_len_33, asym_key_wrong_len::<$v, 33>($pls, &[$sl]));
        $crate::h!(c10_pke_key_wrong_len_32, pke_key_wrong_len::<$v, 32>($pls, &[$sl]));
        $crate::h!(c10_pke_key_wrong_len_33, pke_key_wrong_len::<$v, 33>($pls, &[$sl]));
        $crate::h!(c10_pke_key_wrong_len_short, pke_key_wrong_len::<$v, { $sl - 1 }>($pls, &[$sl]));
        $crate::h!(c04_key_decode_empty, key_decode_empty::<$v>());
        $crate::h!(c13_id_transcript_lid, id_transcript::<$v>($dom, $pfx, $pk, ".lid."));
        $crate::h!(c13_id_transcript_sid, id_transcript::<$v>($dom, $pfx, $pk, ".sid."));
        $crate::h!(c13_id_transcript_pid, id_transcript::<$v>($dom, $pfx, $pk, ".pid."));
    };
}
