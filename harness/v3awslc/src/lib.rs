//! L2 harnesses: the real paseto-v3-aws-lc source (including its unsafe FFI wrappers lc/mod.rs and
//! lc/ptr.rs) over the aws-lc-rs / aws-lc-sys model crates.
#![allow(dead_code, unused_imports, static_mut_refs)]
extern crate alloc;

/// signature length of public tokens (see l2::signed)
pub const PUBLIC_SIG_LEN: usize = 96;
/// see l2::new_secret
pub const SECRET_SOURCE: u8 = 2;
#[path = "../common/l2.rs"]
pub mod l2;
#[macro_use]
#[path = "../common/inst.rs"]
pub mod inst;

#[cfg(kani)]
pub mod proofs {
    use super::l2::*;
    use paseto_core::key::HasKey;
    use paseto_core::PasetoError;
    use paseto_core::paserk::PkeSealingVersion;
    use paseto_core::version::{Local, Public, SealingVersion, Secret, UnsealingVersion};
    use paseto_v3_aws_lc::core::V3 as V;

    fn setup() {
        unsafe { aws_lc_rs::rand::ASSUME_48_IS_P384_SCALAR = true }
    }
    fn ks() -> usize {
        unsafe { aws_lc_rs::cipher::NBLOCKS }
    }
    fn arm(at: usize) {
        unsafe { aws_lc_rs::rand::FAIL_AT = at }
    }
    fn draws() -> usize {
        unsafe { aws_lc_rs::rand::DRAWS }
    }
    fn last_draw() -> [u8; 64] {
        unsafe { aws_lc_rs::rand::LAST }
    }
    fn rcpt() -> Recipient<V> {
        let sk = match crate::l2::new_secret::<V>() {
            Some(k) => k,
            None => {
                kani::assume(false);
                unreachable!()
            }
        };
        Recipient { pk: <V as SealingVersion<Public>>::unsealing_key(&sk), sk }
    }

    instantiate_tokens!(V = V, NONCE = 32, TAG = 48, SIG = 96, A = 1, KS = ks, ARM = arm, DRAWS = draws);
    instantiate_aad!(V = V, TAG = 48);
    instantiate_paserk!(V = V, PIE_OVER = 80, SECRET_LEN = 48, PW_PREFIX = 52, PW_OVER = 100, PW_PARAMS_OFF = 32, PW_PARAMS_LEN = 4, ARM = arm, DRAWS = draws);
    instantiate_pke!(V = V, PKE_LEN = 129, RCPT = rcpt(), ARM = arm, DRAWS = draws);
    instantiate_keys!(V = V, PUB_LEN = 49, SEC_LEN = 48, PUB_IN_SECRET = None, PUB_LENS = &[49, 97, 1], ID_DOM = vmodel::D_SHA384, ID_PREFIX = &[], PASERK = b"k3");

    h!(local_nonce_is_draw_, local_nonce_is_draw::<V>(32, last_draw));
    h!(public_rng_fail_closed_, public_rng_fail_closed::<V>(arm, draws));
    h!(pw_rng_fail_closed_at0, pw_rng_fail_closed::<V, 0>(".local-pw.", arm, draws));
    h!(pw_rng_fail_closed_at1, pw_rng_fail_closed::<V, 1>(".local-pw.", arm, draws));

    /// the ledger over signing only (no verification): key parse, public-key derivation, signing,
    /// signature serialisation, clone, encode
    h!(c04_ffi_ledger_sign, {
        let a0 = aws_lc_sys::model::live_objects();
        {
            let sk = match crate::l2::new_secret::<V>() {
                Some(k) => k,
                None => return,
            };
            let pk = <V as SealingVersion<Public>>::unsealing_key(&sk);
            let msg = Bytes::any(2);
            let r = seal_like_lib::<V, Public>(&sk, msg.s(), b"f", b"");
            core::mem::forget(r);
            let sk2 = sk.clone();
            let pk2 = pk.clone();
            let e = <V as HasKey<Secret>>::encode(&sk2);
            let e2 = <V as HasKey<Public>>::encode(&pk2);
            core::mem::forget((e, e2));
        }
        assert!(aws_lc_sys::model::live_objects() == a0, "an aws-lc object was leaked (or freed twice)");
        kani::cover!(true);
    });
    /// the ledger over key parsing of arbitrary bytes (accept and reject paths)
    h!(c04_ffi_ledger_key_parse, {
        let a0 = aws_lc_sys::model::live_objects();
        {
            let b: [u8; 48] = kani::any();
            let k = <V as HasKey<Secret>>::decode(&b);
            kani::cover!(k.is_ok());
            kani::cover!(k.is_err());
            let c: [u8; 49] = kani::any();
            let p = <V as HasKey<Public>>::decode(&c);
            kani::cover!(p.is_ok());
            kani::cover!(p.is_err());
            drop_keys(k, p);
        }
        assert!(aws_lc_sys::model::live_objects() == a0, "an aws-lc object was leaked (or freed twice)");
    });
    fn drop_keys(k: Result<<V as HasKey<Secret>>::Key, PasetoError>, p: Result<<V as HasKey<Public>>::Key, PasetoError>) {
        // drop the keys (runs the FFI frees) but not the errors (PasetoError's drop glue is irrelevant here)
        match k {
            Ok(k) => drop(k),
            Err(e) => core::mem::forget(e),
        }
        match p {
            Ok(p) => drop(p),
            Err(e) => core::mem::forget(e),
        }
    }
    /// C04: the FFI wrappers free every object exactly once and never use one after free, on the
    /// success path and on every error path of key parsing, signing, verification and display
    h!(c04_ffi_ledger_sign_verify, {
        let a0 = aws_lc_sys::model::live_objects();
        {
            let sk = match crate::l2::new_secret::<V>() {
                Some(k) => k,
                None => return,
            };
            let pk = <V as SealingVersion<Public>>::unsealing_key(&sk);
            let msg = Bytes::any(2);
            let r = seal_like_lib::<V, Public>(&sk, msg.s(), b"f", b"");
            if let Some(mut sealed) = forget(r) {
                let v = <V as UnsealingVersion<Public>>::unseal(&pk, "", &mut sealed, b"f", b"");
                core::mem::forget(v);
                core::mem::forget(sealed);
            }
            let sk2 = sk.clone();
            let e = <V as HasKey<Secret>>::encode(&sk2);
            core::mem::forget(e);
        }
        assert!(aws_lc_sys::model::live_objects() == a0, "an aws-lc object was leaked (or freed twice)");
        kani::cover!(true);
    });
    /// C04 / C08: every byte string offered as a k3.public key is either rejected or yields a key that
    /// can be encoded (displayed), cloned and used; lengths 1, 49, 97 (identity, compressed, uncompressed)
    h!(c04_public_key_usable_len1, public_key_usable::<1>());
    h!(c04_public_key_usable_len49, public_key_usable::<49>());
    h!(c04_public_key_usable_len97, public_key_usable::<97>());
    /// the same without the unseal step (decode, encode, clone only)
    h!(c04_public_key_codec_len1, public_key_codec::<1>());
    h!(c04_public_key_codec_len49, public_key_codec::<49>());
    fn public_key_codec<const N: usize>() {
        let b: [u8; N] = kani::any();
        let k = <V as HasKey<Public>>::decode(&b);
        let mut accepted = false;
        if let Some(k) = forget(k) {
            let e = <V as HasKey<Public>>::encode(&k);
            assert!(e.len() == 49, "an accepted public key does not encode to 49 bytes");
            core::mem::forget(e);
            core::mem::forget(k);
            accepted = true;
        }
        // witness: some key of this length is accepted — except for one-byte strings, which are never
        // public keys (00 is the point at infinity)
        kani::cover!(accepted || N == 1, "accept reachable (or length 1, where nothing may be accepted)");
    }
    fn public_key_usable<const N: usize>() {
        let b: [u8; N] = kani::any();
        let a0 = aws_lc_sys::model::live_objects();
        {
            let k = <V as HasKey<Public>>::decode(&b);
            if let Some(k) = forget(k) {
                let e = <V as HasKey<Public>>::encode(&k);
                assert!(e.len() == 49, "an accepted public key does not encode to 49 bytes");
                let k2 = k.clone();
                let mut p = [0u8; 97];
                let r = <V as UnsealingVersion<Public>>::unseal(&k2, "", &mut p, b"", b"");
                core::mem::forget(r);
                core::mem::forget(e);
                kani::cover!(true, "some key of this length is accepted");
            }
        }
        assert!(aws_lc_sys::model::live_objects() == a0, "an aws-lc object was leaked");
    }
}
