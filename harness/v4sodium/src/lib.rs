//! L2 harnesses: the real paseto-v4-sodium source over the libsodium-rs model crate.
#![allow(dead_code, unused_imports, static_mut_refs)]
extern crate alloc;

/// signature length of public tokens (see l2::signed)
pub const PUBLIC_SIG_LEN: usize = 64;
/// see l2::new_secret
pub const SECRET_SOURCE: u8 = 0;
#[path = "../common/l2.rs"]
pub mod l2;
#[macro_use]
#[path = "../common/inst.rs"]
pub mod inst;

#[cfg(kani)]
pub mod proofs {
    use super::l2::*;
    use paseto_core::key::HasKey;
    use paseto_core::paserk::PkeSealingVersion;
    use paseto_core::version::{Local, Public, SealingVersion};
    use paseto_v4_sodium::core::V4 as V;

    fn setup() {}
    fn ks() -> usize {
        unsafe { libsodium_rs::crypto_stream::KEYSTREAM_APPLIED }
    }
    // libsodium's RNG has no error channel: nothing to arm
    fn arm(_at: usize) {}
    fn draws() -> usize {
        unsafe { libsodium_rs::random::DRAWS }
    }
    fn last_draw() -> [u8; 64] {
        unsafe { libsodium_rs::random::LAST }
    }
    fn rcpt() -> Recipient<V> {
        let sk = match forget(<V as SealingVersion<Public>>::random()) {
            Some(k) => k,
            None => {
                kani::assume(false);
                unreachable!()
            }
        };
        Recipient { pk: <V as SealingVersion<Public>>::unsealing_key(&sk), sk }
    }

    instantiate_tokens!(V = V, NONCE = 32, TAG = 32, SIG = 64, A = 1, KS = ks, ARM = arm, DRAWS = draws);
    instantiate_aad!(V = V, TAG = 32);
    instantiate_paserk!(V = V, PIE_OVER = 64, SECRET_LEN = 64, PW_PREFIX = 56, PW_OVER = 88, PW_PARAMS_OFF = 16, PW_PARAMS_LEN = 16, ARM = arm, DRAWS = draws);
    instantiate_pke!(V = V, PKE_LEN = 96, RCPT = rcpt(), ARM = arm, DRAWS = draws);
    instantiate_keys!(V = V, PUB_LEN = 32, SEC_LEN = 64, PUB_IN_SECRET = Some(32), PUB_LENS = &[32], ID_DOM = vmodel::D_BLAKE2, ID_PREFIX = &[33, 0], PASERK = b"k4");

    h!(local_nonce_is_draw_, local_nonce_is_draw::<V>(32, last_draw));
}
