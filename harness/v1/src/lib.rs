//! L2 harnesses: the real paseto-v1 source (local tokens, PIE, PBKW, key ids) over the model crates;
//! the `ctr` crate is the real one.  The RSA parts (public tokens, PKE) are not modelled.
#![allow(dead_code, unused_imports, static_mut_refs)]
extern crate alloc;

/// signature length of public tokens (see l2::signed)
pub const PUBLIC_SIG_LEN: usize = 256;
/// see l2::new_secret
pub const SECRET_SOURCE: u8 = 0;
#[path = "../common/l2.rs"]
pub mod l2;
#[macro_use]
#[path = "../common/inst.rs"]
pub mod inst;

#[cfg(kani)]
pub mod proofs {
    use super::l2::*;
    use paseto_core::key::HasKey;
    use paseto_core::version::{Local, SealingVersion};
    use paseto_v1::core::V1 as V;

    fn setup() {}
    fn ks() -> usize {
        unsafe { aes::NBLOCKS }
    }
    fn arm(at: usize) {
        unsafe { getrandom::FAIL_AT = at }
    }
    fn draws() -> usize {
        unsafe { getrandom::DRAWS }
    }

    instantiate_local!(V = V, NONCE = 32, TAG = 48, A = 0, KS = ks, ARM = arm, DRAWS = draws);
    instantiate_noaad!(V = V, LOCAL_ONLY);
    instantiate_paserk!(V = V, PIE_OVER = 80, SECRET_LEN = 48, PW_PREFIX = 52, PW_OVER = 100, PW_PARAMS_OFF = 32, PW_PARAMS_LEN = 4, ARM = arm, DRAWS = draws);

    h!(pw_rng_fail_closed_at0, pw_rng_fail_closed::<V, 0>(".local-pw.", arm, draws));
    h!(pw_rng_fail_closed_at1, pw_rng_fail_closed::<V, 1>(".local-pw.", arm, draws));
    h!(c13_id_transcript_lid, id_transcript::<V>(vmodel::D_SHA384, &[], b"k1", ".lid."));

    /// C03: AES-256-CTR with a full-width (128-bit big-endian) counter, as the spec's OpenSSL aes-256-ctr
    h!(c03_local_ctr_counter_128bit, {
        let kb: [u8; 32] = kani::any();
        let key = forget(<V as HasKey<Local>>::decode(&kb)).unwrap();
        let msg = Bytes::any(17);
        let n0 = unsafe { aes::NBLOCKS };
        let sealed = forget(seal_like_lib::<V, Local>(&key, msg.s(), b"", b""));
        assert!(sealed.is_some());
        assert!(unsafe { aes::NBLOCKS } == n0 + 2, "17 bytes of plaintext must take exactly two AES blocks");
        let (b0, b1) = unsafe { (aes::BLOCKS[n0], aes::BLOCKS[n0 + 1]) };
        let want = u128::from_be_bytes(b0).wrapping_add(1).to_be_bytes();
        assert!(b1 == want, "AES-CTR counter is not a 128-bit big-endian counter");
        kani::cover!(b0[15] == 0xff && b0[14] == 0xff, "counter carries out of the low 16 bits");
        core::mem::forget(sealed);
    });
}
