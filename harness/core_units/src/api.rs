//! C09 / C10(i) / C04 at the API level: every FromStr/Display pair of paseto-core, on fully symbolic
//! strings of concrete length (all 256 byte values per position — a superset of valid UTF-8).
use alloc::vec::Vec;
use core::fmt::Display;
use core::str::FromStr;

use paseto_core::key::Key;
use paseto_core::paserk::{KeyId, KeyText, PasswordWrappedKey, PieWrappedKey, SealedKey};
use paseto_core::tokens::SealedToken;
use paseto_core::version::{Local, PkePublic, PkeSecret, Public, Secret};
use paseto_core::PasetoError;

use crate::l3::*;
use crate::oracle::*;

/// accepted  <=>  s == header ‖ tail with tail strict canonical base64url (and, if `need` is given,
/// of exactly that many characters);  accepted => Display(value) == s.
///
/// `FIX = true`: the first `header.len()` bytes are the parser's own header (concrete) and only the
/// tail is symbolic.  `FIX = false`: every byte is symbolic.  The split exists because of how CBMC
/// merges `Option<&str>`: after `str::strip_prefix` on a symbolic prefix the remaining length is
/// `ite(matched, n, <junk of the None variant>)`, i.e. symbolic, and every later loop unrolls to the
/// unwind bound (measured: 1.0 M steps and >14 GB for a 9-byte string at unwind 64).  The symbolic-
/// header harnesses therefore use short strings and an unwind bound of L+3; the tail grammar is
/// explored with the header fixed, where everything stays concrete-length.
fn paserk_strict<T, const L: usize, const FIX: bool>(header: &[u8], need: Option<usize>)
where
    T: FromStr<Err = PasetoError> + Display,
{
    let mut s: [u8; L] = kani::any();
    if FIX {
        let mut i = 0;
        while i < header.len() && i < L {
            s[i] = header[i];
            i += 1;
        }
    }
    let st = unsafe { core::str::from_utf8_unchecked(&s) };
    let r = T::from_str(st);
    let h = header.len();
    let want = L >= h && starts_with(&s, header) && b64_valid(&s[h..]) && match need {
        Some(n) => L - h == n,
        None => true,
    };
    match &r {
        Ok(v) => {
            assert!(want, "accepted a string that is not header + canonical base64url");
            // the Display round trip is checked with the header fixed only: behind a symbolic header
            // the parsed value's length is symbolic to CBMC (see above)
            if FIX {
                let mut sink = Sink::<80>::new();
                assert!(display_into(v, &mut sink));
                assert!(bytes_eq(sink.bytes(), &s), "accepted string does not re-serialise to itself");
            }
        }
        Err(e) => {
            assert!(!want, "rejected a canonical string");
            let k = err_kind(e);
            assert!(k == 0 || k == 1, "error is neither Base64DecodeError nor InvalidKey");
        }
    }
    kani::cover!(r.is_ok() == (L >= h && (L - h) % 4 != 1 && need.map_or(true, |n| L - h == n)), "accept reachable (or reject where no string of this length is valid)");
    kani::cover!(r.is_err(), "reject reachable");
    core::mem::forget(r);
}

macro_rules! paserk_h {
    ($($name:ident: $t:ty, $hdr:expr, $l:expr, $need:expr, $fix:expr, $unw:literal;)*) => {$(
        #[kani::proof]
        #[kani::unwind($unw)]
        pub fn $name() { paserk_strict::<$t, { $l }, { $fix }>($hdr, $need); }
    )*};
}

// "k4.local." = 9, "k4.secret." = 10, "k4.public." = 10
paserk_h! {
    // fixed header, symbolic tail
    keytext_local_t1: KeyText<AV, Local>, b"k4.local.", 10, None, true, 20;
    keytext_local_t2: KeyText<AV, Local>, b"k4.local.", 11, None, true, 20;
    keytext_local_t3: KeyText<AV, Local>, b"k4.local.", 12, None, true, 20;
    keytext_local_t4: KeyText<AV, Local>, b"k4.local.", 13, None, true, 20;
    keytext_local_t6: KeyText<AV, Local>, b"k4.local.", 15, None, true, 20;
    keytext_local_t7: KeyText<AV, Local>, b"k4.local.", 16, None, true, 20;
    keytext_secret_t3: KeyText<AV, Secret>, b"k4.secret.", 13, None, true, 20;
    keytext_public_t2: KeyText<AV, Public>, b"k4.public.", 12, None, true, 20;
    keytext_v3_local_t3: KeyText<AV3, Local>, b"k3.local.", 12, None, true, 20;
    pie_local_t2: PieWrappedKey<AV, Local>, b"k4.local-wrap.pie.", 20, None, true, 24;
    pw_local_t2: PasswordWrappedKey<AV, Local>, b"k4.local-pw.", 14, None, true, 20;
    seal_t2: SealedKey<AV>, b"k4.seal.", 10, None, true, 20;
    pie_local_t3: PieWrappedKey<AV, Local>, b"k4.local-wrap.pie.", 21, None, true, 24;
    pie_secret_t4: PieWrappedKey<AV, Secret>, b"k4.secret-wrap.pie.", 23, None, true, 26;
    pw_local_t3: PasswordWrappedKey<AV, Local>, b"k4.local-pw.", 15, None, true, 20;
    pw_secret_t2: PasswordWrappedKey<AV, Secret>, b"k4.secret-pw.", 15, None, true, 20;
    seal_t3: SealedKey<AV>, b"k4.seal.", 11, None, true, 20;
    seal_t4: SealedKey<AV>, b"k4.seal.", 12, None, true, 20;
    // key ids: exactly 44 characters (33 bytes) — 43, 45 and 46 characters are rejected
    keyid_lid_44: KeyId<AV, Local>, b"k4.lid.", 51, Some(44), true, 56;
    keyid_lid_43: KeyId<AV, Local>, b"k4.lid.", 50, Some(44), true, 56;
    keyid_lid_46: KeyId<AV, Local>, b"k4.lid.", 53, Some(44), true, 56;
    keyid_sid_44: KeyId<AV, Secret>, b"k4.sid.", 51, Some(44), true, 56;
    keyid_pid_44: KeyId<AV, Public>, b"k4.pid.", 51, Some(44), true, 56;
    // every byte symbolic (header included): strings of exactly header length, and header + 2
    keytext_local_t0: KeyText<AV, Local>, b"k4.local.", 9, None, false, 12;
    keytext_local_short: KeyText<AV, Local>, b"k4.local.", 7, None, false, 12;
    keytext_local_hdr_t2: KeyText<AV, Local>, b"k4.local.", 11, None, false, 14;
    keytext_secret_hdr_t0: KeyText<AV, Secret>, b"k4.secret.", 10, None, false, 13;
    keytext_public_hdr_t0: KeyText<AV, Public>, b"k4.public.", 10, None, false, 13;
    keytext_v3_local_hdr_t0: KeyText<AV3, Local>, b"k3.local.", 9, None, false, 12;
    pie_local_hdr_t0: PieWrappedKey<AV, Local>, b"k4.local-wrap.pie.", 18, None, false, 21;
    pie_secret_hdr_t0: PieWrappedKey<AV, Secret>, b"k4.secret-wrap.pie.", 19, None, false, 22;
    pw_local_hdr_t0: PasswordWrappedKey<AV, Local>, b"k4.local-pw.", 12, None, false, 15;
    pw_secret_hdr_t0: PasswordWrappedKey<AV, Secret>, b"k4.secret-pw.", 13, None, false, 16;
    seal_hdr_t0: SealedKey<AV>, b"k4.seal.", 8, None, false, 11;
    seal_hdr_t2: SealedKey<AV>, b"k4.seal.", 10, None, false, 13;
}

/// Key<V,K>::from_str == KeyText::from_str then V::decode on exactly the decoded bytes
#[kani::proof]
#[kani::unwind(20)]
pub fn key_fromstr_is_keytext_then_decode() {
    // header fixed (see paserk_strict); the header check of Key::from_str is KeyText::from_str's
    let t: [u8; 4] = kani::any();
    let s: [u8; 13] = [b'k', b'4', b'.', b'l', b'o', b'c', b'a', b'l', b'.', t[0], t[1], t[2], t[3]];
    let st = unsafe { core::str::from_utf8_unchecked(&s) };
    let before = unsafe { LOG.key_decode_calls };
    let r = Key::<AV, Local>::from_str(st);
    let l = unsafe { LOG };
    let text_ok = starts_with(&s, b"k4.local.") && b64_valid(&s[9..]);
    if !text_ok {
        assert!(r.is_err() && l.key_decode_calls == before);
    } else {
        assert!(l.key_decode_calls == before + 1);
        assert!(l.key_decode_in.len == 3);
        assert!(l.key_decode_in.b[0] == b64_byte(&s[9..], 0) && l.key_decode_in.b[1] == b64_byte(&s[9..], 1) && l.key_decode_in.b[2] == b64_byte(&s[9..], 2));
        assert!(r.is_ok() == l.key_decode_ok);
    }
    kani::cover!(r.is_ok());
    kani::cover!(text_ok && r.is_err());
    core::mem::forget(r);
}

/// KeyId: Eq / Ord / Hash agree with the 33 bytes; Display/FromStr round trip of arbitrary ids
struct H64(u64, u32);
impl core::hash::Hasher for H64 {
    fn finish(&self) -> u64 {
        self.0
    }
    fn write(&mut self, bytes: &[u8]) {
        let mut i = 0;
        while i < bytes.len() {
            self.0 = self.0.rotate_left(5) ^ bytes[i] as u64;
            i += 1;
        }
        self.1 += 1;
    }
}
#[kani::proof]
#[kani::unwind(64)]
pub fn keyid_roundtrip_eq_ord_hash() {
    use core::hash::Hash;
    // build two ids by parsing reference-encoded symbolic bytes
    let a: [u8; 33] = kani::any();
    let b: [u8; 33] = kani::any();
    let mut sa = [0u8; 51];
    let mut sb = [0u8; 51];
    sa[..7].copy_from_slice(b"k4.lid.");
    sb[..7].copy_from_slice(b"k4.lid.");
    assert!(ref_encode(&a, &mut sa[7..]) == 44);
    assert!(ref_encode(&b, &mut sb[7..]) == 44);
    let ia = KeyId::<AV, Local>::from_str(unsafe { core::str::from_utf8_unchecked(&sa) });
    let ib = KeyId::<AV, Local>::from_str(unsafe { core::str::from_utf8_unchecked(&sb) });
    match (&ia, &ib) {
        (Ok(x), Ok(y)) => {
            assert!(bytes_eq(x.as_bytes(), &a) && bytes_eq(y.as_bytes(), &b));
            let same = bytes_eq(&a, &b);
            assert!((x == y) == same);
            // lexicographic byte order
            let mut ord = core::cmp::Ordering::Equal;
            let mut i = 0;
            while i < 33 {
                if ord == core::cmp::Ordering::Equal && a[i] != b[i] {
                    ord = if a[i] < b[i] { core::cmp::Ordering::Less } else { core::cmp::Ordering::Greater };
                }
                i += 1;
            }
            assert!(x.cmp(y) == ord);
            assert!(x.partial_cmp(y) == Some(ord));
            let mut h1 = H64(7, 0);
            let mut h2 = H64(7, 0);
            x.hash(&mut h1);
            y.hash(&mut h2);
            if same {
                assert!(h1.0 == h2.0);
            }
            let mut sink = Sink::<80>::new();
            assert!(display_into(x, &mut sink));
            assert!(bytes_eq(sink.bytes(), &sa));
            kani::cover!(same);
            kani::cover!(ord == core::cmp::Ordering::Greater);
        }
        _ => assert!(false, "a canonical 44-character id was rejected"),
    }
    core::mem::forget(ia);
    core::mem::forget(ib);
}

/// KeyId parsers of one kind reject the ids of the other kinds (C10): the id *bytes* are symbolic
/// (every 33-byte id, canonical text through the reference encoder), the header is each of the
/// other kinds' and the sibling version's — concrete, because a symbolic header followed by a
/// 44-character tail is out of reach (see `paserk_strict`); the own-kind string must be accepted.
/// Added after seeded change c10b (kind letter of `.lid.`/`.sid.`/`.pid.` not compared).
fn keyid_kind<T: FromStr<Err = PasetoError>>(hdr: &[u8; 7], a: &[u8; 33]) -> bool {
    let mut s = [0u8; 51];
    s[..7].copy_from_slice(hdr);
    assert!(ref_encode(a, &mut s[7..]) == 44);
    let r = T::from_str(unsafe { core::str::from_utf8_unchecked(&s) });
    let ok = r.is_ok();
    core::mem::forget(r);
    ok
}
macro_rules! keyid_cross {
    ($($name:ident: $t:ty, $other:expr;)*) => {$(
        #[kani::proof]
        #[kani::unwind(64)]
        pub fn $name() {
            // one foreign header per harness: when a parser wrongly accepts, the base64 decoder runs over
            // the symbolic tail, and several such parses in one harness exceed the memory cap (measured
            // on seeded change c10b); acceptance under the own header is `keyid_{lid,sid,pid}_44` /
            // `keyid_roundtrip_eq_ord_hash`
            let a: [u8; 33] = kani::any();
            let ok = keyid_kind::<$t>($other, &a);
            assert!(!ok, "a key id with another kind's or version's header was accepted");
            kani::cover!(!ok);
        }
    )*};
}
keyid_cross! {
    keyid_hdr_cross_sid_from_lid: KeyId<AV, Secret>, b"k4.lid.";
    keyid_hdr_cross_sid_from_pid: KeyId<AV, Secret>, b"k4.pid.";
    keyid_hdr_cross_sid_from_k3: KeyId<AV, Secret>, b"k3.sid.";
    keyid_hdr_cross_lid_from_sid: KeyId<AV, Local>, b"k4.sid.";
    keyid_hdr_cross_lid_from_pid: KeyId<AV, Local>, b"k4.pid.";
    keyid_hdr_cross_pid_from_lid: KeyId<AV, Public>, b"k4.lid.";
    keyid_hdr_cross_pid_from_sid: KeyId<AV, Public>, b"k4.sid.";
}
/// the kind letter symbolic, the tail concrete ("A"×44 = thirty-three zero bytes)
#[kani::proof]
#[kani::unwind(64)]
pub fn keyid_hdr_kind_letter() {
    let x: u8 = kani::any();
    kani::assume(x < 0x80);
    let mut s = [b'A'; 51];
    s[..7].copy_from_slice(b"k4.sid.");
    s[3] = x;
    let r = KeyId::<AV, Secret>::from_str(unsafe { core::str::from_utf8_unchecked(&s) });
    assert!(r.is_ok() == (x == b's'), "KeyId<Secret> must accept k4.?id.… iff ? == 's'");
    kani::cover!(r.is_ok());
    kani::cover!(r.is_err());
    core::mem::forget(r);
}

/// Tokens: header ‖ payload [‖ '.' ‖ footer]; the dot position D (or none) is a case split.
/// accepted <=> header matches, both segments canonical base64url, no further '.'.
/// accepted => Display == s, or s == Display ‖ "." (empty footer).
fn token_strict<const L: usize, const FIX: bool>(dot: Option<usize>) {
    let mut s: [u8; L] = kani::any();
    let h = 9; // "v4.local."
    if FIX {
        let hdr = b"v4.local.";
        let mut i = 0;
        while i < h {
            s[i] = hdr[i];
            i += 1;
        }
    }
    // constrain the string to the announced dot position (the stub asserts it again)
    match dot {
        Some(d) => {
            kani::assume(s[h + d] == b'.');
            let mut i = h;
            while i < h + d {
                kani::assume(s[i] != b'.');
                i += 1;
            }
        }
        None => {
            let mut i = h;
            while i < L {
                kani::assume(s[i] != b'.');
                i += 1;
            }
        }
    }
    let st = unsafe { core::str::from_utf8_unchecked(&s) };
    let r = SealedToken::<AV, Local, Msg, Vec<u8>>::from_str(st);
    let want = starts_with(&s, b"v4.local.")
        && match dot {
            Some(d) => b64_valid(&s[h..h + d]) && b64_valid(&s[h + d + 1..]),
            None => b64_valid(&s[h..]),
        };
    match &r {
        Ok(v) => {
            assert!(want);
            if FIX {
                let mut sink = Sink::<80>::new();
                assert!(display_into(v, &mut sink));
                let trailing = match dot {
                    Some(d) => h + d + 1 == L,
                    None => false,
                };
                if trailing {
                    assert!(bytes_eq(sink.bytes(), &s[..L - 1]));
                } else {
                    assert!(bytes_eq(sink.bytes(), &s));
                }
            }
        }
        Err(e) => {
            assert!(!want);
            let k = err_kind(e);
            assert!(k == 0 || k == 2);
        }
    }
    // accept is reachable unless a segment has a length no base64url string can have (4k+1)
    let acceptable = match dot {
        Some(d) => d % 4 != 1 && (L - h - d - 1) % 4 != 1,
        None => (L - h) % 4 != 1,
    };
    kani::cover!(!acceptable || r.is_ok(), "accept reachable");
    kani::cover!(r.is_err(), "reject reachable");
    core::mem::forget(r);
}

macro_rules! token_h {
    ($($name:ident: $l:expr, $dot:expr, $stub:ident, $fix:expr, $unw:literal;)*) => {$(
        #[kani::proof]
        #[kani::unwind($unw)]
        #[kani::stub(core::slice::memchr::memchr, crate::oracle::$stub)]
        pub fn $name() { token_strict::<{ $l }, { $fix }>($dot); }
    )*};
}
token_h! {
    token_p2_nodot: 11, None, memchr_none, true, 20;
    token_p2_dot_f0: 12, Some(2), memchr_at2, true, 20;
    token_p2_dot_f1: 13, Some(2), memchr_at2, true, 20;
    token_p4_nodot: 13, None, memchr_none, true, 20;
    token_p3_nodot: 12, None, memchr_none, true, 20;
    token_p0_nodot: 9, None, memchr_none, true, 20;
    token_p4_dot_f0: 14, Some(4), memchr_at4, true, 20;
    token_p4_dot_f2: 16, Some(4), memchr_at4, true, 20;
    token_p3_dot_f3: 16, Some(3), memchr_at3, true, 20;
    token_p0_dot_f4: 14, Some(0), memchr_at0, true, 20;
    token_p2_dot_f4_dot: 16, Some(2), memchr_at2, true, 20;
    // every byte symbolic, header included
    token_hdr_p0_nodot: 9, None, memchr_none, false, 12;
    token_hdr_p2_nodot: 11, None, memchr_none, false, 14;
    token_hdr_p0_dot_f0: 10, Some(0), memchr_at0, false, 13;
}


/// Concrete companions of the token harnesses: fixed strings whose dot structure differs, executed by
/// the engine with the real `memchr` (no stub), one harness per string.  They decide nothing for "all
/// strings" — the symbolic harnesses above do — but a parser change that makes segment lengths
/// data-dependent (which the symbolic harnesses can then no longer bound) still has to get these right.
fn token_shape(s: &str, accept: bool) {
    let r = SealedToken::<AV, Local, Msg, Vec<u8>>::from_str(s);
    assert!(r.is_ok() == accept, "a token string with this dot structure is accepted/rejected wrongly");
    if let Ok(v) = &r {
        let mut sink = Sink::<80>::new();
        assert!(display_into(v, &mut sink));
        let b = s.as_bytes();
        let want = if b[b.len() - 1] == b'.' { &b[..b.len() - 1] } else { b };
        assert!(bytes_eq(sink.bytes(), want), "accepted token does not re-serialise to itself (minus a trailing dot)");
    }
    kani::cover!(r.is_ok() == accept);
    core::mem::forget(r);
}
macro_rules! shape_h {
    ($($name:ident: $s:expr, $ok:expr;)*) => {$(
        #[kani::proof]
        #[kani::unwind(40)]
        pub fn $name() { token_shape($s, $ok); }
    )*};
}
shape_h! {
    token_shape_plain: "v4.local.AAAA", true;
    token_shape_trailing_dot: "v4.local.AAAA.", true;
    token_shape_footer: "v4.local.AAAA.AAAA", true;
    token_shape_two_trailing_dots: "v4.local.AAAA..", false;
    token_shape_footer_trailing_dot: "v4.local.AAAA.AAAA.", false;
    token_shape_three_segments: "v4.local.AAAA.AAAA.AAAA", false;
}

// ------------------------------------------------------------------------------------------------
// C13 (L3): Key::id() hashes exactly (id header, PASERK text of the key) and returns the digest
// ------------------------------------------------------------------------------------------------
fn id_composition<K: paseto_core::key::KeyType>(id_header: &[u8], text_header: &[u8])
where
    AV: paseto_core::key::HasKey<K, Key = AK>,
{
    let kt = KeyText::<AV, K>::from_raw_bytes(&[9, 9, 9, 9]);
    let key: Key<AV, K> = match kt.try_into() {
        Ok(k) => k,
        Err(e) => {
            let e: PasetoError = e;
            core::mem::forget(e);
            kani::assume(false);
            unreachable!()
        }
    };
    // the backend invented arbitrary key material; read it back through the public API
    let raw = key.expose_key();
    let mut kb = [0u8; 4];
    kb.copy_from_slice(raw.as_raw_bytes());
    let before = unsafe { ID_CALLS };
    let id = key.id();
    assert!(unsafe { ID_CALLS } == before + 1);
    let hdr = unsafe { ID_HEADER_SEEN };
    assert!(bytes_eq(hdr.as_bytes(), id_header), "wrong id header hashed");
    // expected key text: "k4" ‖ K::HEADER ‖ base64url(key bytes)
    let mut want = [0u8; 32];
    let mut n = 0;
    while n < text_header.len() {
        want[n] = text_header[n];
        n += 1;
    }
    n += ref_encode(&kb, &mut want[n..]);
    let (seen, len) = unsafe { (ID_DATA_SEEN, ID_DATA_LEN) };
    assert!(len == n && bytes_eq(&seen[..len], &want[..n]), "the id is not computed over the key's PASERK text");
    assert!(bytes_eq(id.as_bytes(), unsafe { &ID_RETURNED }), "the id is not the digest returned by the backend");
    // ids of the same key agree (stable), and the id text is "k4" ‖ id header ‖ base64url(33 bytes)
    let mut sink = Sink::<80>::new();
    assert!(display_into(&id, &mut sink));
    let mut w2 = [0u8; 80];
    let mut m = 0;
    w2[0] = b'k';
    w2[1] = b'4';
    m += 2;
    let mut i = 0;
    while i < id_header.len() {
        w2[m] = id_header[i];
        m += 1;
        i += 1;
    }
    m += ref_encode(id.as_bytes(), &mut w2[m..]);
    assert!(bytes_eq(sink.bytes(), &w2[..m]), "key id text is not header + base64url(33 bytes)");
    kani::cover!(true);
}
#[kani::proof]
#[kani::unwind(64)]
pub fn c13_id_composition_local() {
    id_composition::<Local>(b".lid.", b"k4.local.");
}
#[kani::proof]
#[kani::unwind(64)]
pub fn c13_id_composition_secret() {
    id_composition::<Secret>(b".sid.", b"k4.secret.");
}
#[kani::proof]
#[kani::unwind(64)]
pub fn c13_id_composition_public() {
    id_composition::<Public>(b".pid.", b"k4.public.");
}

// ------------------------------------------------------------------------------------------------
// C10: header constants are pairwise distinct and prefix-free; no string is accepted by two parsers
// ------------------------------------------------------------------------------------------------
#[kani::proof]
#[kani::unwind(24)]
pub fn c10_header_table() {
    use paseto_core::key::{KeyType, SealingKey};
    let heads: [&str; 11] = [
        <Local as KeyType>::HEADER,
        <Secret as KeyType>::HEADER,
        <Public as KeyType>::HEADER,
        <Local as KeyType>::ID_HEADER,
        <Secret as KeyType>::ID_HEADER,
        <Public as KeyType>::ID_HEADER,
        <Local as SealingKey>::PIE_WRAP_HEADER,
        <Secret as SealingKey>::PIE_WRAP_HEADER,
        <Local as SealingKey>::PW_WRAP_HEADER,
        <Secret as SealingKey>::PW_WRAP_HEADER,
        ".seal.",
    ];
    let mut i = 0;
    while i < 11 {
        let a = heads[i].as_bytes();
        assert!(a.len() >= 3 && a[0] == b'.' && a[a.len() - 1] == b'.', "a kind header does not start and end with '.'");
        let mut j = 0;
        while j < 11 {
            if i != j {
                let b = heads[j].as_bytes();
                // b must not extend a (then "k4" ‖ b ‖ tail could also parse as "k4" ‖ a ‖ tail')
                assert!(!starts_with(b, a), "one kind header is a prefix of another");
            }
            j += 1;
        }
        i += 1;
    }
    // the PKE key kinds deliberately share the text headers of the signing keys
    assert!(bytes_eq(<PkePublic as KeyType>::HEADER.as_bytes(), <Public as KeyType>::HEADER.as_bytes()));
    assert!(bytes_eq(<PkeSecret as KeyType>::HEADER.as_bytes(), <Secret as KeyType>::HEADER.as_bytes()));
    kani::cover!(i == 11);
}

/// one symbolic 12-byte string offered to six PASERK parsers (two versions; local, secret, public,
/// seal — tails of 3, 2, 2 and 4 characters): at most one accepts
#[kani::proof]
#[kani::unwind(15)]
pub fn c10_no_string_accepted_twice() {
    let s: [u8; 12] = kani::any();
    let st = unsafe { core::str::from_utf8_unchecked(&s) };
    let mut n = 0u32;
    macro_rules! tryp {
        ($t:ty) => {{
            let r = <$t>::from_str(st);
            if r.is_ok() {
                n += 1;
            }
            core::mem::forget(r);
        }};
    }
    tryp!(KeyText<AV, Local>);
    tryp!(KeyText<AV3, Local>);
    tryp!(KeyText<AV, Secret>);
    tryp!(KeyText<AV, Public>);
    tryp!(KeyText<AV3, Secret>);
    tryp!(SealedKey<AV>);
    assert!(n <= 1, "a string is accepted by two different parsers");
    kani::cover!(n == 1);
}
