//! C15: the real `paseto_core::pae::pre_auth_encode` against the PASETO spec's PAE, and injectivity.
//!
//! The writer used here records every `write` call as (pointer, length, first 8 bytes) instead of
//! copying contents: a fragment written with the same pointer and length as the caller's fragment
//! *is* that fragment, so "the sequence of writes is exactly LE64(n), then per piece LE64(total
//! length) followed by its fragments in order" is checked without materialising any bytes — which
//! lets fragment lengths be symbolic over 0..600 and contents arbitrary.
use alloc::vec::Vec;
use paseto_core::pae::{pre_auth_encode, WriteBytes};

pub const MAXC: usize = 24;

pub struct CallLog {
    pub n: usize,
    pub ptr: [*const u8; MAXC],
    pub len: [usize; MAXC],
    pub head: [[u8; 8]; MAXC],
}
impl CallLog {
    pub fn new() -> Self {
        CallLog { n: 0, ptr: [core::ptr::null(); MAXC], len: [0; MAXC], head: [[0; 8]; MAXC] }
    }
}
impl WriteBytes for CallLog {
    fn write(&mut self, s: &[u8]) {
        let i = self.n;
        assert!(i < MAXC);
        self.ptr[i] = s.as_ptr();
        self.len[i] = s.len();
        if s.len() == 8 {
            let mut k = 0;
            while k < 8 {
                self.head[i][k] = s[k];
                k += 1;
            }
        }
        self.n = i + 1;
    }
}

/// spec LE64 (Common.md): little-endian, most significant bit cleared
fn le64_is(bytes: &[u8; 8], n: u64) -> bool {
    let mut ok = true;
    let mut i = 0;
    while i < 8 {
        let mut b = ((n >> (8 * i)) & 255) as u8;
        if i == 7 {
            b &= 127;
        }
        ok &= bytes[i] == b;
        i += 1;
    }
    ok
}

/// Walk the call log against the spec for `pieces`; fragments of length 8 are told apart from
/// length headers by position (the walk is positional), so nothing is ambiguous.
fn log_matches_spec(log: &CallLog, pieces: &[&[&[u8]]]) -> bool {
    let mut c = 0;
    if log.n == 0 || log.len[0] != 8 || !le64_is(&log.head[0], pieces.len() as u64) {
        return false;
    }
    c += 1;
    let mut p = 0;
    while p < pieces.len() {
        let piece = pieces[p];
        let mut total = 0u64;
        let mut f = 0;
        while f < piece.len() {
            total += piece[f].len() as u64;
            f += 1;
        }
        if c >= log.n || log.len[c] != 8 || !le64_is(&log.head[c], total) {
            return false;
        }
        c += 1;
        let mut f = 0;
        while f < piece.len() {
            if c >= log.n || log.ptr[c] != piece[f].as_ptr() || log.len[c] != piece[f].len() {
                return false;
            }
            c += 1;
            f += 1;
        }
        p += 1;
    }
    c == log.n
}

const SLOT: usize = 640;
const BIG: usize = 8 * SLOT;
/// fragment number `slot` of the store: fixed offset, symbolic length 0..=max (max <= 600)
fn frag_at<'a>(store: &'a [u8; BIG], slot: usize, max: usize) -> &'a [u8] {
    let len: usize = kani::any();
    kani::assume(len <= max);
    &store[slot * SLOT..slot * SLOT + len]
}

fn check<const N: usize>(pieces: [&[&[u8]]; N]) {
    let mut log = CallLog::new();
    pre_auth_encode(pieces, &mut log);
    assert!(log_matches_spec(&log, &pieces), "write sequence differs from the spec's PAE");
    kani::cover!(log.n >= 1, "PAE compared");
}

// piece counts 0..5 (5 is the maximum any backend uses), fragments per piece 0..3 (3 is the maximum
// used: the header "vN" ‖ suffix ‖ ".purpose."), fragment lengths symbolic in 0..600.
#[kani::proof]
#[kani::unwind(10)]
pub fn pae_n0() {
    check::<0>([]);
}

#[kani::proof]
#[kani::unwind(10)]
pub fn pae_n1_frag0123() {
    let store: [u8; BIG] = kani::any();
    let (a, b, c) = (frag_at(&store, 0, 600), frag_at(&store, 1, 600), frag_at(&store, 2, 600));
    let k: u8 = kani::any();
    match k {
        0 => check::<1>([&[]]),
        1 => check::<1>([&[a]]),
        2 => check::<1>([&[a, b]]),
        _ => check::<1>([&[a, b, c]]),
    }
}

#[kani::proof]
#[kani::unwind(10)]
pub fn pae_n2() {
    let store: [u8; BIG] = kani::any();
    let (a, b, c) = (frag_at(&store, 0, 600), frag_at(&store, 1, 600), frag_at(&store, 2, 600));
    check::<2>([&[a, b], &[c]]);
}

/// v2 local / v1,v2 public shape: 3 pieces, header in three fragments
#[kani::proof]
#[kani::unwind(10)]
pub fn pae_n3_header3() {
    let store: [u8; BIG] = kani::any();
    let (h1, h2, h3) = (frag_at(&store, 0, 8), frag_at(&store, 1, 8), frag_at(&store, 2, 16));
    let (n, f) = (frag_at(&store, 3, 600), frag_at(&store, 4, 600));
    check::<3>([&[h1, h2, h3], &[n], &[f]]);
}

/// v4 public shape: 4 pieces
#[kani::proof]
#[kani::unwind(10)]
pub fn pae_n4_public() {
    let store: [u8; BIG] = kani::any();
    let (h1, h2, h3) = (frag_at(&store, 0, 8), frag_at(&store, 1, 8), frag_at(&store, 2, 16));
    let (m, f, a) = (frag_at(&store, 3, 600), frag_at(&store, 4, 600), frag_at(&store, 5, 600));
    check::<4>([&[h1, h2, h3], &[m], &[f], &[a]]);
}

/// v3/v4 local shape: 5 pieces
#[kani::proof]
#[kani::unwind(10)]
pub fn pae_n5_local() {
    let store: [u8; BIG] = kani::any();
    let (h1, h2, h3) = (frag_at(&store, 0, 8), frag_at(&store, 1, 8), frag_at(&store, 2, 16));
    let (n, c, f, a) = (frag_at(&store, 3, 64), frag_at(&store, 4, 600), frag_at(&store, 5, 600), frag_at(&store, 6, 600));
    check::<5>([&[h1, h2, h3], &[n], &[c], &[f], &[a]]);
}

/// quick variants of the two most used shapes with fragment lengths 0..2
#[kani::proof]
#[kani::unwind(10)]
pub fn pae_n5_local_small() {
    let store: [u8; BIG] = kani::any();
    let (h1, h2, h3) = (frag_at(&store, 0, 2), frag_at(&store, 1, 2), frag_at(&store, 2, 2));
    let (n, c, f, a) = (frag_at(&store, 3, 2), frag_at(&store, 4, 2), frag_at(&store, 5, 2), frag_at(&store, 6, 2));
    check::<5>([&[h1, h2, h3], &[n], &[c], &[f], &[a]]);
}
#[kani::proof]
#[kani::unwind(10)]
pub fn pae_n4_public_small() {
    let store: [u8; BIG] = kani::any();
    let (h1, h2, h3) = (frag_at(&store, 0, 2), frag_at(&store, 1, 2), frag_at(&store, 2, 2));
    let (m, f, a) = (frag_at(&store, 3, 2), frag_at(&store, 4, 2), frag_at(&store, 5, 2));
    check::<4>([&[h1, h2, h3], &[m], &[f], &[a]]);
}

/// v3 public shape: key first
#[kani::proof]
#[kani::unwind(10)]
pub fn pae_n5_v3public() {
    let store: [u8; BIG] = kani::any();
    let pk = frag_at(&store, 0, 64);
    let (h1, h2, h3) = (frag_at(&store, 1, 8), frag_at(&store, 2, 8), frag_at(&store, 3, 16));
    let (m, f, a) = (frag_at(&store, 4, 600), frag_at(&store, 5, 600), frag_at(&store, 6, 600));
    check::<5>([&[pk], &[h1, h2, h3], &[m], &[f], &[a]]);
}

/// 8 pieces (the quantifier's upper end), single fragments
#[kani::proof]
#[kani::unwind(12)]
pub fn pae_n8() {
    let store: [u8; BIG] = kani::any();
    let a = frag_at(&store, 0, 600);
    let b = frag_at(&store, 1, 600);
    check::<8>([&[a], &[b], &[], &[a, b], &[b], &[a], &[b, a, b], &[a]]);
}

// ---- bytes level: Vec writer (the WriteBytes impl of paseto-core) and framing injectivity -------

fn vec_pae<const N: usize>(pieces: [&[&[u8]]; N]) -> Vec<u8> {
    let mut v: Vec<u8> = Vec::with_capacity(96);
    pre_auth_encode(pieces, &mut v);
    v
}

/// Vec<u8> (paseto-core's own WriteBytes impl) receives exactly the concatenation the spec prescribes
/// (small concrete lengths, symbolic contents): LE64(2) ‖ LE64(3)‖h‖""‖x ‖ LE64(2)‖m
#[kani::proof]
#[kani::unwind(40)]
pub fn pae_vec_bytes() {
    let h: [u8; 2] = kani::any();
    let x: [u8; 1] = kani::any();
    let m: [u8; 2] = kani::any();
    let v = vec_pae([&[&h, b"", &x], &[&m]]);
    let want: [u8; 29] = [2, 0, 0, 0, 0, 0, 0, 0, 3, 0, 0, 0, 0, 0, 0, 0, h[0], h[1], x[0], 2, 0, 0, 0, 0, 0, 0, 0, m[0], m[1]];
    assert!(v.len() == 29);
    let mut i = 0;
    while i < 29 {
        assert!(v[i] == want[i]);
        i += 1;
    }
    kani::cover!(v.len() == 29);
    core::mem::forget(v);
}

/// Boundary shifting: the same 3 bytes split between message | footer | assertion at every pair of
/// different split points give different encodings (all 10 ordered splits, pairwise).
fn split_pae(bytes: &[u8; 3], i: usize, j: usize) -> Vec<u8> {
    vec_pae([&[b"h"], &[&bytes[..i]], &[&bytes[i..j]], &[&bytes[j..]]])
}
#[kani::proof]
#[kani::unwind(46)]
pub fn pae_boundary_shift() {
    let bytes: [u8; 3] = kani::any();
    // reference encoding for the split (0,0) is compared against every other split, and a second
    // base split (1,2) against every other; together with symmetry this covers the interesting pairs
    let base = [(0usize, 0usize), (1, 2)];
    let all = [(0usize, 0usize), (0, 1), (0, 2), (0, 3), (1, 1), (1, 2), (1, 3), (2, 2), (2, 3), (3, 3)];
    let mut bi = 0;
    while bi < 2 {
        let a = split_pae(&bytes, base[bi].0, base[bi].1);
        let mut k = 0;
        while k < 10 {
            if all[k] != base[bi] {
                let b = split_pae(&bytes, all[k].0, all[k].1);
                assert!(a.len() == b.len());
                let mut same = true;
                let mut t = 0;
                while t < 44 {
                    same &= a[t] == b[t];
                    t += 1;
                }
                assert!(!same, "two different splits of the same bytes have the same PAE");
                core::mem::forget(b);
            }
            k += 1;
        }
        core::mem::forget(a);
        bi += 1;
    }
    kani::cover!(bi == 2);
}

