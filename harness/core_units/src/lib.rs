//! Unit harnesses over the real paseto-core sources.
//! `gen/base64_unit.rs` is produced at check time: the current /repo/paseto-core/src/base64.rs
//! followed by proofs/base64_proofs.rs (so the private functions are the repository's own tokens).
#![allow(dead_code, unused_imports, internal_features, static_mut_refs, unused_variables, unused_mut)]
#![feature(formatting_options)]
#[macro_use]
extern crate alloc;
pub use paseto_core::PasetoError;

#[path = "../gen/base64_unit.rs"]
pub mod base64;

pub mod oracle;
pub mod l3;
#[cfg(kani)]
pub mod api;
#[cfg(kani)]
pub mod pae;
#[cfg(kani)]
pub mod validation;
#[cfg(kani)]
pub mod tokens;
