//! L3 harnesses over paseto-core/src/tokens.rs + encodings.rs with the arbitrary backend `AV`.
use alloc::vec::Vec;
use core::str::FromStr;

use paseto_core::key::Key;
use paseto_core::paserk::KeyText;
use paseto_core::tokens::{SealedToken, UnsealedToken};
use paseto_core::version::{Local, Public, Secret};
use paseto_core::PasetoError;

use crate::l3::*;
use crate::oracle::*;

fn a_key<K: paseto_core::key::KeyType>() -> Key<AV, K>
where
    AV: paseto_core::key::HasKey<K, Key = AK>,
{
    let kt = KeyText::<AV, K>::from_raw_bytes(&[1, 2, 3, 4]);
    let r: Result<Key<AV, K>, PasetoError> = kt.try_into();
    match r {
        Ok(k) => k,
        Err(e) => {
            core::mem::forget(e);
            kani::assume(false);
            unreachable!()
        }
    }
}

/// "v4.local." ‖ b64(payload) [‖ "." ‖ b64(footer)] built with the reference encoder
fn token_string<const S: usize>(header: &[u8], payload: &[u8], footer: &[u8], force_dot: bool, out: &mut [u8; S]) -> usize {
    let mut n = 0;
    while n < header.len() {
        out[n] = header[n];
        n += 1;
    }
    n += ref_encode(payload, &mut out[n..]);
    if !footer.is_empty() || force_dot {
        out[n] = b'.';
        n += 1;
        n += ref_encode(footer, &mut out[n..]);
    }
    n
}

/// C11 (release only if the validator accepts), C12 (nothing decoded/validated/reported from an
/// unauthenticated token) and the unseal half of C01, for every backend behaviour.
fn unseal_exact<const P: usize, const F: usize, const A: usize, const DOT: bool>() {
    let payload: [u8; P] = kani::any();
    let footer: [u8; F] = kani::any();
    let aad: [u8; A] = kani::any();
    let mut s = [0u8; 48];
    let n = token_string(b"v4.local.", &payload, &footer, DOT, &mut s);
    let st = unsafe { core::str::from_utf8_unchecked(&s[..n]) };
    let tok = match SealedToken::<AV, Local, Msg, Vec<u8>>::from_str(st) {
        Ok(t) => t,
        Err(e) => {
            core::mem::forget(e);
            assert!(false, "a well-formed token string was rejected");
            return;
        }
    };
    assert!(bytes_eq(tok.unverified_footer(), &footer));
    let key = a_key::<Local>();
    let before = unsafe { LOG };
    let r = tok.unseal(&key, &aad, &AVal);
    let l = unsafe { LOG };
    // the backend is asked exactly once, about exactly these bytes
    assert!(l.unseal_calls == before.unseal_calls + 1);
    assert!(l.unseal_payload.eq_slice(&payload));
    assert!(l.unseal_footer.eq_slice(&footer));
    assert!(l.unseal_aad.eq_slice(&aad));
    assert!(l.unseal_enc_len == 0);
    let dec = l.decode_calls - before.decode_calls;
    let val = l.validate_calls - before.validate_calls;
    match &r {
        Err(e) => {
            let k = err_kind(e);
            if !l.unseal_ok {
                // C12: authentication failed => neither decoder nor validator ran; error kind is the backend's
                assert!(dec == 0 && val == 0);
                assert!(k == l.unseal_err);
            } else if !l.decode_ok {
                assert!(dec == 1 && val == 0);
                assert!(k == 5);
            } else {
                assert!(!l.validate_ok, "unseal failed although backend, decoder and validator all accepted");
                assert!(dec == 1 && val == 1);
                assert!(k == l.validate_err);
            }
        }
        Ok(t) => {
            // C11: claims only if backend, decoder and validator accepted
            assert!(l.unseal_ok && l.decode_ok && l.validate_ok);
            assert!(dec == 1 && val == 1);
            assert!(t.claims.id == l.decode_id);
            assert!(bytes_eq(&t.footer, &footer));
        }
    }
    if dec == 1 {
        // the decoder sees exactly the bytes the backend returned, after the backend ran
        assert!(l.unseal_ok);
        assert!(l.decode_ptr == l.unseal_out_ptr && l.decode_len == l.unseal_out_len);
        assert!(l.unseal_seq < l.decode_seq);
    }
    if val == 1 {
        assert!(l.decode_ok && l.validate_id == l.decode_id);
        assert!(l.decode_seq < l.validate_seq);
    }
    kani::cover!(r.is_ok(), "accepting path");
    kani::cover!(!l.unseal_ok, "backend rejects");
    kani::cover!(l.unseal_ok && l.decode_ok && !l.validate_ok, "validator rejects");
    kani::cover!(l.unseal_ok && !l.decode_ok, "decoder rejects");
    core::mem::forget(r);
}

#[kani::proof]
#[kani::unwind(20)]
#[kani::stub(core::slice::memchr::memchr, crate::oracle::memchr_at4)]
pub fn l3_unseal_exact_p3_f0_a0() {
    unseal_exact::<3, 0, 0, true>();
}
#[kani::proof]
#[kani::unwind(20)]
#[kani::stub(core::slice::memchr::memchr, crate::oracle::memchr_none)]
pub fn l3_unseal_exact_p2_f0_a1_nodot() {
    unseal_exact::<2, 0, 1, false>();
}
#[kani::proof]
#[kani::unwind(20)]
#[kani::stub(core::slice::memchr::memchr, crate::oracle::memchr_at6)]
pub fn l3_unseal_exact_p4_f2_a1() {
    unseal_exact::<4, 2, 1, false>();
}
#[kani::proof]
#[kani::unwind(20)]
#[kani::stub(core::slice::memchr::memchr, crate::oracle::memchr_at0)]
pub fn l3_unseal_exact_p0_f1_a2() {
    unseal_exact::<0, 1, 2, false>();
}

/// Public purpose goes through the same generic code with P = Public (verify path)
#[kani::proof]
#[kani::unwind(20)]
#[kani::stub(core::slice::memchr::memchr, crate::oracle::memchr_at4)]
pub fn l3_unseal_exact_public() {
    let payload: [u8; 3] = kani::any();
    let footer: [u8; 1] = kani::any();
    let mut s = [0u8; 48];
    let n = token_string(b"v4.public.", &payload, &footer, false, &mut s);
    let st = unsafe { core::str::from_utf8_unchecked(&s[..n]) };
    let tok = match SealedToken::<AV, Public, Msg, Vec<u8>>::from_str(st) {
        Ok(t) => t,
        Err(e) => {
            core::mem::forget(e);
            assert!(false, "a well-formed token string was rejected");
            return;
        }
    };
    let key = a_key::<Public>();
    let before = unsafe { LOG };
    let r = tok.verify(&key, &AVal);
    let l = unsafe { LOG };
    assert!(l.unseal_payload.eq_slice(&payload) && l.unseal_footer.eq_slice(&footer) && l.unseal_aad.len == 0);
    assert!(r.is_ok() == (l.unseal_ok && l.decode_ok && l.validate_ok));
    if !l.unseal_ok {
        assert!(l.decode_calls == before.decode_calls && l.validate_calls == before.validate_calls);
    }
    kani::cover!(r.is_ok());
    kani::cover!(r.is_err());
    core::mem::forget(r);
}

/// `()` footer: only the empty footer parses; Display prints no dot.
fn unit_footer<const WITH_FOOTER: bool, const DOT: bool>() {
    let payload: [u8; 3] = kani::any();
    let footer: [u8; 1] = kani::any();
    let mut s = [0u8; 48];
    let n = if WITH_FOOTER { token_string(b"v4.local.", &payload, &footer, false, &mut s) } else { token_string(b"v4.local.", &payload, &[], DOT, &mut s) };
    let st = unsafe { core::str::from_utf8_unchecked(&s[..n]) };
    let r = SealedToken::<AV, Local, Msg, ()>::from_str(st);
    assert!(r.is_ok() == !WITH_FOOTER);
    if let Ok(t) = &r {
        let mut sink = Sink::<64>::new();
        assert!(display_into(t, &mut sink));
        // printed without trailing dot
        assert!(bytes_eq(sink.bytes(), &s[..n - if DOT { 1 } else { 0 }]));
    }
    if let Err(e) = &r {
        assert!(err_kind(e) == 5);
    }
    kani::cover!(r.is_ok() == !WITH_FOOTER);
    core::mem::forget(r);
}
#[kani::proof]
#[kani::unwind(20)]
#[kani::stub(core::slice::memchr::memchr, crate::oracle::memchr_at4)]
pub fn l3_unit_footer_present() {
    unit_footer::<true, false>();
}
#[kani::proof]
#[kani::unwind(20)]
#[kani::stub(core::slice::memchr::memchr, crate::oracle::memchr_at4)]
pub fn l3_unit_footer_absent_dot() {
    unit_footer::<false, true>();
}
#[kani::proof]
#[kani::unwind(20)]
#[kani::stub(core::slice::memchr::memchr, crate::oracle::memchr_none)]
pub fn l3_unit_footer_absent_nodot() {
    unit_footer::<false, false>();
}

/// Seal half of C01 at L3: seal -> Display -> FromStr -> unseal hands the backend back exactly what
/// it produced, for every backend behaviour; nonce/encode/seal failures propagate.
fn seal_path<const NONCE: usize, const M: usize, const F: usize, const A: usize, const R: usize, const PARSE_BACK: bool>() {
    unsafe {
        NONCE_LEN = NONCE;
        ENC_LEN = M;
        SEAL_OUT_LEN = R;
    }
    let footer_b: [u8; F] = kani::any();
    let aad: [u8; A] = kani::any();
    let mut fv = Vec::with_capacity(8);
    fv.extend_from_slice(&footer_b);
    let key = a_key::<Local>();
    let tok = UnsealedToken::<AV, Local, Msg>::new(Msg { id: kani::any() }).with_footer(fv);
    let before = unsafe { LOG };
    let r = tok.seal(&key, &aad);
    let l = unsafe { LOG };
    assert!(l.nonce_calls == before.nonce_calls + 1, "the library's own nonce path is used exactly once");
    let sealed = match r {
        Err(e) => {
            let k = err_kind(&e);
            if !l.nonce_ok {
                assert!(k == l.nonce_err && l.seal_calls == before.seal_calls);
            } else if !l.encode_ok {
                assert!(k == 5 && l.seal_calls == before.seal_calls);
            } else {
                assert!(!l.seal_ok && k == l.seal_err);
            }
            kani::cover!(!l.nonce_ok, "nonce failure propagates");
            core::mem::forget(e);
            return;
        }
        Ok(s) => s,
    };
    assert!(l.nonce_ok && l.encode_ok && l.seal_ok && l.seal_calls == before.seal_calls + 1);
    // backend was given nonce ‖ encoded claims, the encoded footer and the assertion
    assert!(l.seal_payload.len == NONCE + M);
    assert!(bytes_eq(&l.seal_payload.b[..NONCE], &l.nonce.b[..NONCE]));
    assert!(bytes_eq(&l.seal_payload.b[NONCE..NONCE + M], &l.encoded.b[..M]));
    assert!(l.seal_footer.eq_slice(&footer_b) && l.seal_aad.eq_slice(&aad) && l.seal_enc_len == 0);
    // serialise
    let mut sink = Sink::<64>::new();
    assert!(display_into(&sealed, &mut sink));
    let mut want = [0u8; 48];
    let wn = token_string(b"v4.local.", &l.seal_out.b[..R], &footer_b, false, &mut want);
    assert!(bytes_eq(sink.bytes(), &want[..wn]));
    kani::cover!(true, "sealed and serialised");
    if !PARSE_BACK {
        // the parse-and-unseal half on exactly such strings is l3_unseal_exact_*
        core::mem::forget(sealed);
        return;
    }
    // parse back and unseal
    let st = unsafe { core::str::from_utf8_unchecked(sink.bytes()) };
    let back = match SealedToken::<AV, Local, Msg, Vec<u8>>::from_str(st) {
        Ok(t) => t,
        Err(e) => {
            core::mem::forget(e);
            assert!(false, "the library rejected its own serialisation");
            return;
        }
    };
    let r2 = back.unseal(&key, &aad, &AVal);
    let l2 = unsafe { LOG };
    assert!(l2.unseal_payload.eq_slice(&l.seal_out.b[..R]));
    assert!(l2.unseal_footer.eq_slice(&footer_b) && l2.unseal_aad.eq_slice(&aad));
    if let Ok(t) = &r2 {
        assert!(bytes_eq(&t.footer, &footer_b));
    }
    kani::cover!(r2.is_ok(), "full round trip");
    core::mem::forget(r2);
}

#[kani::proof]
#[kani::unwind(20)]
#[kani::stub(core::slice::memchr::memchr, crate::oracle::memchr_none)]
pub fn l3_seal_path_n2_m1_f0_a0_r3() {
    seal_path::<2, 1, 0, 0, 3, true>();
}
#[kani::proof]
#[kani::unwind(20)]
#[kani::stub(core::slice::memchr::memchr, crate::oracle::memchr_at6)]
pub fn l3_seal_path_n0_m2_f2_a1_r4() {
    seal_path::<0, 2, 2, 1, 4, true>();
}
#[kani::proof]
#[kani::unwind(20)]
#[kani::stub(core::slice::memchr::memchr, crate::oracle::memchr_at7)]
pub fn l3_seal_path_n3_m0_f1_a2_r5() {
    seal_path::<3, 0, 1, 2, 5, true>();
}


// the seal -> serialise half alone (the chain above is thorough-tier: 0.5 M steps)
#[kani::proof]
#[kani::unwind(20)]
pub fn l3_seal_serialise_n2_m1_f0_a0_r3() {
    seal_path::<2, 1, 0, 0, 3, false>();
}
#[kani::proof]
#[kani::unwind(20)]
pub fn l3_seal_serialise_n0_m2_f2_a1_r4() {
    seal_path::<0, 2, 2, 1, 4, false>();
}
#[kani::proof]
#[kani::unwind(20)]
pub fn l3_seal_serialise_n3_m0_f1_a2_r5() {
    seal_path::<3, 0, 1, 2, 5, false>();
}
