//! C11: the Validate combinators of paseto-core/src/validation.rs are exact.
use alloc::boxed::Box;
use alloc::rc::Rc;
use alloc::sync::Arc;
use alloc::vec::Vec;

use paseto_core::validation::{NoValidation, Validate};
use paseto_core::PasetoError;

use crate::l3::{err_kind, err_of};

pub struct C {
    pub a: u8,
    pub inner: Inner,
}
pub struct Inner {
    pub b: u8,
}

static mut CALLS: u32 = 0;

/// accepts iff claims.a & mask == want ; rejects with a chosen error kind
pub struct Bit {
    mask: u8,
    want: u8,
    ek: u8,
}
impl Validate for Bit {
    type Claims = C;
    fn validate(&self, c: &C) -> Result<(), PasetoError> {
        unsafe { CALLS += 1 };
        if c.a & self.mask == self.want { Ok(()) } else { Err(err_of(self.ek)) }
    }
}
pub struct InnerIs(u8);
impl Validate for InnerIs {
    type Claims = Inner;
    fn validate(&self, c: &Inner) -> Result<(), PasetoError> {
        if c.b == self.0 { Ok(()) } else { Err(PasetoError::ClaimsError) }
    }
}

fn any_bit() -> Bit {
    let ek: u8 = kani::any();
    kani::assume(ek <= 4);
    Bit { mask: kani::any(), want: kani::any(), ek }
}
fn acc(b: &Bit, c: &C) -> bool {
    c.a & b.mask == b.want
}
fn ok(r: Result<(), PasetoError>) -> bool {
    let o = r.is_ok();
    core::mem::forget(r);
    o
}

#[kani::proof]
#[kani::unwind(6)]
pub fn val_and_then_exact() {
    let c = C { a: kani::any(), inner: Inner { b: kani::any() } };
    let (x, y, z) = (any_bit(), any_bit(), any_bit());
    let want = acc(&x, &c) && acc(&y, &c) && acc(&z, &c);
    let first_fail = if !acc(&x, &c) { x.ek } else if !acc(&y, &c) { y.ek } else { z.ek };
    let v = x.and_then(y).and_then(z);
    let r = v.validate(&c);
    assert!(r.is_ok() == want);
    if let Err(e) = &r {
        // the error reported is the first failing member's
        assert!(err_kind(e) == first_fail);
    }
    kani::cover!(want);
    kani::cover!(!want);
    core::mem::forget(r);
}

#[kani::proof]
#[kani::unwind(6)]
pub fn val_nested_depth3() {
    let c = C { a: kani::any(), inner: Inner { b: kani::any() } };
    let (w, x, y, z) = (any_bit(), any_bit(), any_bit(), any_bit());
    let want = acc(&w, &c) && acc(&x, &c) && acc(&y, &c) && acc(&z, &c);
    // ((w & x) & (y & z)) nested, inside Box
    let v = Box::new(w.and_then(x).and_then(y.and_then(z)));
    assert!(ok(v.validate(&c)) == want);
    kani::cover!(want);
    kani::cover!(!want);
    core::mem::forget(v);
}

fn slice_exact<const N: usize>() {
    let c = C { a: kani::any(), inner: Inner { b: kani::any() } };
    let mut vs: Vec<Bit> = Vec::with_capacity(4);
    let mut want = true;
    let mut i = 0;
    while i < N {
        let b = any_bit();
        want &= acc(&b, &c);
        vs.push(b);
        i += 1;
    }
    let before = unsafe { CALLS };
    assert!(ok(vs.validate(&c)) == want);
    assert!(ok(vs[..].validate(&c)) == want);
    if want {
        assert!(unsafe { CALLS } - before == 2 * N as u32);
    }
    kani::cover!(want);
    kani::cover!(N == 0 || !want);
    core::mem::forget(vs);
}
#[kani::proof]
#[kani::unwind(6)]
pub fn val_slice_vec_n0() {
    slice_exact::<0>();
}
#[kani::proof]
#[kani::unwind(6)]
pub fn val_slice_vec_n1() {
    slice_exact::<1>();
}
#[kani::proof]
#[kani::unwind(6)]
pub fn val_slice_vec_n3() {
    slice_exact::<3>();
}

#[kani::proof]
#[kani::unwind(6)]
pub fn val_pointers_transparent() {
    let c = C { a: kani::any(), inner: Inner { b: kani::any() } };
    let mask: u8 = kani::any();
    let want_v: u8 = kani::any();
    let want = c.a & mask == want_v;
    let bx: Box<Bit> = Box::new(Bit { mask, want: want_v, ek: 4 });
    assert!(ok(bx.validate(&c)) == want);
    let bd: Box<dyn Validate<Claims = C>> = Box::new(Bit { mask, want: want_v, ek: 4 });
    assert!(ok(bd.validate(&c)) == want);
    let rc: Rc<Bit> = Rc::new(Bit { mask, want: want_v, ek: 4 });
    assert!(ok(rc.validate(&c)) == want);
    let ar: Arc<Bit> = Arc::new(Bit { mask, want: want_v, ek: 4 });
    assert!(ok(ar.validate(&c)) == want);
    kani::cover!(want);
    kani::cover!(!want);
    core::mem::forget((bx, bd, rc, ar));
}

#[kani::proof]
#[kani::unwind(6)]
pub fn val_map_and_novalidation() {
    let c = C { a: kani::any(), inner: Inner { b: kani::any() } };
    let k: u8 = kani::any();
    let v = InnerIs(k).map(|c: &C| &c.inner);
    assert!(ok(v.validate(&c)) == (c.inner.b == k));
    let b = any_bit();
    let want = acc(&b, &c) && c.inner.b == k;
    let both = b.and_then(InnerIs(k).map(|c: &C| &c.inner));
    assert!(ok(both.validate(&c)) == want);
    assert!(ok(NoValidation::<C>::dangerous_no_validation().validate(&c)));
    kani::cover!(want);
    kani::cover!(c.inner.b != k);
}
