
// ---------------------------------------------------------------------------------------------
// Appended by /verif (never committed to /repo): proofs over the private items of base64.rs.
// Everything above this line is the repository's current paseto-core/src/base64.rs, verbatim.
// ---------------------------------------------------------------------------------------------
#[cfg(kani)]
pub mod proofs {
    use super::*;

    fn is_alpha(b: u8) -> bool {
        (b >= b'A' && b <= b'Z')
            || (b >= b'a' && b <= b'z')
            || (b >= b'0' && b <= b'9')
            || b == b'-'
            || b == b'_'
    }

    /// reference value of a base64url character (spec: RFC 4648 table 2)
    fn ref_val(b: u8) -> i16 {
        if b >= b'A' && b <= b'Z' {
            (b - b'A') as i16
        } else if b >= b'a' && b <= b'z' {
            (b - b'a') as i16 + 26
        } else if b >= b'0' && b <= b'9' {
            (b - b'0') as i16 + 52
        } else if b == b'-' {
            62
        } else if b == b'_' {
            63
        } else {
            -1
        }
    }

    // ---------------- L0: all inputs, no bound -------------------------------------------

    #[kani::proof]
    pub fn l0_decode_6bits_exact() {
        let b: u8 = kani::any();
        let v = decode_6bits(b);
        assert!(v == ref_val(b));
        kani::cover!(v == 63);
        kani::cover!(v == -1);
    }

    #[kani::proof]
    pub fn l0_encode_6bits_inverse() {
        let s: i16 = kani::any();
        kani::assume(s >= 0 && s < 64);
        let c = encode_6bits(s);
        assert!(is_alpha(c));
        assert!(ref_val(c) == s);
        assert!(decode_6bits(c) == s);
        let b: u8 = kani::any();
        if is_alpha(b) {
            assert!(encode_6bits(decode_6bits(b)) == b);
        }
        kani::cover!(c == b'_');
    }

    #[kani::proof]
    pub fn l0_encode_then_decode_3bytes() {
        let src: [u8; 3] = kani::any();
        let mut enc = [0u8; 4];
        encode_3bytes(&src, &mut enc);
        assert!(is_alpha(enc[0]) && is_alpha(enc[1]) && is_alpha(enc[2]) && is_alpha(enc[3]));
        // spec: 24 bits big-endian split into four sextets
        let w = ((src[0] as u32) << 16) | ((src[1] as u32) << 8) | src[2] as u32;
        assert!(ref_val(enc[0]) as u32 == (w >> 18) & 63);
        assert!(ref_val(enc[1]) as u32 == (w >> 12) & 63);
        assert!(ref_val(enc[2]) as u32 == (w >> 6) & 63);
        assert!(ref_val(enc[3]) as u32 == w & 63);
        let mut dec = [0u8; 3];
        let err = decode_3bytes(&enc, &mut dec);
        assert!(err == 0);
        assert!(dec[0] == src[0] && dec[1] == src[1] && dec[2] == src[2]);
        kani::cover!(src[0] == 0xff && src[2] == 0);
    }

    #[kani::proof]
    pub fn l0_decode_3bytes_exact() {
        let src: [u8; 4] = kani::any();
        let mut dec = [0u8; 3];
        let err = decode_3bytes(&src, &mut dec);
        let all = is_alpha(src[0]) && is_alpha(src[1]) && is_alpha(src[2]) && is_alpha(src[3]);
        assert!((err == 0) == all);
        assert!(err == 0 || err == 1);
        if all {
            let w = ((ref_val(src[0]) as u32) << 18)
                | ((ref_val(src[1]) as u32) << 12)
                | ((ref_val(src[2]) as u32) << 6)
                | ref_val(src[3]) as u32;
            assert!(dec[0] as u32 == w >> 16);
            assert!(dec[1] as u32 == (w >> 8) & 255);
            assert!(dec[2] as u32 == w & 255);
            let mut enc = [0u8; 4];
            encode_3bytes(&dec, &mut enc);
            assert!(enc[0] == src[0] && enc[1] == src[1] && enc[2] == src[2] && enc[3] == src[3]);
        }
        kani::cover!(all);
        kani::cover!(!all);
    }

    #[kani::proof]
    pub fn l0_decoded_len() {
        let n: usize = kani::any();
        let d = decoded_len(n);
        // floor(3n/4) without overflow: n = 4k + l
        let k = n / 4;
        let l = n % 4;
        // floor(3l/4): l=0 ->0, l=1 ->0, l=2 ->1, l=3 ->2
        let f: u128 = match l { 0 | 1 => 0, 2 => 1, _ => 2 };
        let want = 3 * (k as u128) + f;
        assert!(d as u128 == want);
        kani::cover!(n == usize::MAX);
    }

    #[kani::proof]
    #[kani::unwind(6)]
    pub fn l0_encode_last() {
        let b: [u8; 3] = kani::any();
        let n: usize = kani::any();
        kani::assume(n <= 2);
        let mut dst = [0u8; 4];
        let mut padded = [0u8; 3];
        let mut i = 0;
        while i < n {
            padded[i] = b[i];
            i += 1;
        }
        let mut full = [0u8; 4];
        encode_3bytes(&padded, &mut full);
        let out = encode_last(&b[..n], &mut dst);
        let want_len = if n == 0 { 0 } else { n + 1 };
        assert!(out.len() == want_len);
        let mut i = 0;
        while i < want_len {
            assert!(out[i] == full[i]);
            i += 1;
        }
        kani::cover!(n == 2);
    }

    // ---------------- L1: bounded lengths, symbolic contents -----------------------------

    /// Every string of length N over ALL 256 byte values (a superset of the valid UTF-8 strings of
    /// that length; `decode` only looks at `as_bytes()`): Ok  <=>  strict, canonical base64url.
    fn decode_strict<const N: usize>() {
        let src: [u8; N] = kani::any();
        let s = unsafe { core::str::from_utf8_unchecked(&src) };
        let mut dst = [0xa5u8; 12];
        let res = decode(s, &mut dst);
        // independent oracle -------------------------------------------------------------
        let mut all = true;
        let mut i = 0;
        while i < N {
            all &= is_alpha(src[i]);
            i += 1;
        }
        let rem = N % 4;
        let trailing_ok = if !all || rem == 0 {
            true
        } else if rem == 2 {
            ref_val(src[N - 1]) & 0x0f == 0
        } else if rem == 3 {
            ref_val(src[N - 1]) & 0x03 == 0
        } else {
            false
        };
        let want_ok = all && rem != 1 && trailing_ok;
        match res {
            Ok(out) => {
                assert!(want_ok);
                assert!(out.len() == N * 3 / 4);
                // value oracle: big-endian bit string of the sextets
                let mut k = 0;
                while k < out.len() {
                    let bit = k * 8;
                    let c = bit / 6;
                    let off = bit % 6;
                    let hi = ref_val(src[c]) as u32;
                    let lo = ref_val(src[c + 1]) as u32;
                    let w = (hi << 6) | lo; // 12 bits
                    let byte = (w >> (4 - off)) & 0xff;
                    assert!(out[k] as u32 == byte);
                    k += 1;
                }
            }
            Err(e) => {
                assert!(!want_ok);
                assert!(matches!(e, PasetoError::Base64DecodeError));
                core::mem::forget(e);
            }
        }
        // reachability witnesses, satisfiable for every N
        kani::cover!(want_ok == (N % 4 != 1), "an accepted string exists (or, for N = 1 mod 4, a rejected one)");
        kani::cover!(if N == 0 { want_ok } else { !want_ok && (all || N % 4 < 2) },
            "a string rejected only for non-canonical trailing bits (N mod 4 in 2,3), or for a bad character");
    }

    macro_rules! decode_strict_h {
        ($($name:ident = $n:literal),*) => {$(
            #[kani::proof]
            #[kani::unwind(14)]
            pub fn $name() { decode_strict::<$n>(); }
        )*};
    }
    decode_strict_h!(
        l1_decode_strict_n0 = 0, l1_decode_strict_n1 = 1, l1_decode_strict_n2 = 2, l1_decode_strict_n3 = 3,
        l1_decode_strict_n4 = 4, l1_decode_strict_n5 = 5, l1_decode_strict_n6 = 6, l1_decode_strict_n7 = 7,
        l1_decode_strict_n8 = 8, l1_decode_strict_n9 = 9, l1_decode_strict_n10 = 10, l1_decode_strict_n11 = 11
    );

    /// too-small destination is an error, never a truncated result or an out-of-bounds write
    #[kani::proof]
    #[kani::unwind(10)]
    pub fn l1_decode_small_dst() {
        let src: [u8; 6] = kani::any();
        let s = unsafe { core::str::from_utf8_unchecked(&src) };
        let cap: usize = kani::any();
        kani::assume(cap <= 6);
        let mut dst = [0u8; 6];
        let r = decode(s, &mut dst[..cap]);
        if cap < 4 {
            assert!(r.is_err());
        }
        if let Ok(o) = &r {
            assert!(o.len() == 4);
        }
        kani::cover!(r.is_ok() && cap == 6);
        core::mem::forget(r);
    }

    struct Sink {
        buf: [u8; 24],
        len: usize,
    }
    impl fmt::Write for Sink {
        fn write_str(&mut self, s: &str) -> fmt::Result {
            let b = s.as_bytes();
            if self.len + b.len() > self.buf.len() {
                return Err(fmt::Error);
            }
            let mut i = 0;
            while i < b.len() {
                self.buf[self.len + i] = b[i];
                i += 1;
            }
            self.len += b.len();
            Ok(())
        }
    }

    /// every byte string of length N encodes to an unpadded alphabet-only string of ceil(4N/3)
    /// characters which decodes back to it (decode and decode_vec).
    fn encode_roundtrip<const N: usize>() {
        let b: [u8; N] = kani::any();
        let mut sink = Sink { buf: [0; 24], len: 0 };
        {
            let mut f = fmt::Formatter::new(&mut sink, fmt::FormattingOptions::new());
            assert!(write_to_fmt(&b, &mut f).is_ok());
        }
        let want_len = (N / 3) * 4 + if N % 3 == 0 { 0 } else { N % 3 + 1 };
        assert!(sink.len == want_len);
        let mut i = 0;
        while i < sink.len {
            assert!(is_alpha(sink.buf[i]));
            i += 1;
        }
        let s = unsafe { core::str::from_utf8_unchecked(&sink.buf[..sink.len]) };
        let mut dst = [0u8; 12];
        match decode(s, &mut dst) {
            Ok(out) => {
                assert!(out.len() == N);
                let mut i = 0;
                while i < N {
                    assert!(out[i] == b[i]);
                    i += 1;
                }
            }
            Err(_) => assert!(false, "decode(encode(b)) failed"),
        }
        match decode_vec(s) {
            Ok(v) => {
                assert!(v.len() == N);
                let mut i = 0;
                while i < N {
                    assert!(v[i] == b[i]);
                    i += 1;
                }
                kani::cover!(true, "round trip reached");
                core::mem::forget(v);
            }
            Err(_) => assert!(false, "decode_vec(encode(b)) failed"),
        }
    }

    macro_rules! roundtrip_h {
        ($($name:ident = $n:literal),*) => {$(
            #[kani::proof]
            #[kani::unwind(14)]
            pub fn $name() { encode_roundtrip::<$n>(); }
        )*};
    }
    roundtrip_h!(
        l1_encode_roundtrip_n1 = 1, l1_encode_roundtrip_n2 = 2,
        l1_encode_roundtrip_n3 = 3, l1_encode_roundtrip_n4 = 4, l1_encode_roundtrip_n5 = 5,
        l1_encode_roundtrip_n6 = 6, l1_encode_roundtrip_n7 = 7, l1_encode_roundtrip_n8 = 8
    );

    /// the empty byte string (N = 0 of the family above, written out concretely: the generic
    /// instantiation at N = 0 stalls CBMC for minutes on zero-sized symbolic arrays)
    #[kani::proof]
    #[kani::unwind(14)]
    pub fn l1_encode_roundtrip_empty() {
        let mut sink = Sink { buf: [0; 24], len: 0 };
        {
            let mut f = fmt::Formatter::new(&mut sink, fmt::FormattingOptions::new());
            assert!(write_to_fmt(&[], &mut f).is_ok());
        }
        assert!(sink.len == 0);
        let s = unsafe { core::str::from_utf8_unchecked(&sink.buf[..sink.len]) };
        let mut dst = [0u8; 12];
        let r = decode(s, &mut dst);
        assert!(matches!(&r, Ok(o) if o.is_empty()));
        core::mem::forget(r);
        let v = decode_vec(s);
        assert!(matches!(&v, Ok(o) if o.is_empty()));
        kani::cover!(v.is_ok(), "empty round trip reached");
        core::mem::forget(v);
    }

    /// decode_vec agrees with decode on every string of length N
    fn decode_vec_agrees<const N: usize>() {
        let src: [u8; N] = kani::any();
        let s = unsafe { core::str::from_utf8_unchecked(&src) };
        let mut dst = [0u8; 12];
        let a = decode(s, &mut dst);
        let b = decode_vec(s);
        match (&a, &b) {
            (Ok(x), Ok(y)) => {
                assert!(x.len() == y.len());
                let mut i = 0;
                while i < x.len() {
                    assert!(x[i] == y[i]);
                    i += 1;
                }
            }
            (Err(_), Err(_)) => {}
            _ => assert!(false, "decode and decode_vec disagree"),
        }
        let acc = a.is_ok() && b.is_ok();
        let rej = a.is_err() && b.is_err();
        kani::cover!(if N % 4 == 1 { rej } else { acc }, "both accept (N = 1 mod 4: both reject)");
        kani::cover!(if N == 0 { acc } else { rej }, "both reject (N = 0: both accept)");
        core::mem::forget(a);
        core::mem::forget(b);
    }
    macro_rules! vec_agrees_h {
        ($($name:ident = $n:literal),*) => {$(
            #[kani::proof]
            #[kani::unwind(14)]
            pub fn $name() { decode_vec_agrees::<$n>(); }
        )*};
    }
    vec_agrees_h!(
        l1_decode_vec_agrees_n0 = 0, l1_decode_vec_agrees_n1 = 1, l1_decode_vec_agrees_n2 = 2,
        l1_decode_vec_agrees_n3 = 3, l1_decode_vec_agrees_n5 = 5, l1_decode_vec_agrees_n6 = 6,
        l1_decode_vec_agrees_n7 = 7
    );
}
