//! L2 harnesses: the real paseto-v3 source (RustCrypto backend) over the model crates; the `ctr`
//! crate is the real one.
#![allow(dead_code, unused_imports, static_mut_refs)]
extern crate alloc;

/// signature length of public tokens (see l2::signed)
pub const PUBLIC_SIG_LEN: usize = 96;
/// see l2::new_secret
pub const SECRET_SOURCE: u8 = 2;
#[path = "../common/l2.rs"]
pub mod l2;
#[macro_use]
#[path = "../common/inst.rs"]
pub mod inst;

#[cfg(kani)]
pub mod proofs {
    use super::l2::*;
    use paseto_core::key::HasKey;
    use paseto_core::paserk::PkeSealingVersion;
    use paseto_core::version::{Local, Public, SealingVersion};
    use paseto_v3::core::V3 as V;

    fn setup() {
        unsafe { getrandom::ASSUME_48_IS_P384_SCALAR = true }
    }
    fn ks() -> usize {
        unsafe { aes::NBLOCKS }
    }
    fn arm(at: usize) {
        unsafe { getrandom::FAIL_AT = at }
    }
    fn draws() -> usize {
        unsafe { getrandom::DRAWS }
    }
    fn last_draw() -> [u8; 64] {
        unsafe { getrandom::LAST[0] }
    }
    fn rcpt() -> Recipient<V> {
        let sk = match forget(<V as SealingVersion<Public>>::random()) {
            Some(k) => k,
            None => {
                kani::assume(false);
                unreachable!()
            }
        };
        Recipient { pk: <V as SealingVersion<Public>>::unsealing_key(&sk), sk }
    }

    instantiate_tokens!(V = V, NONCE = 32, TAG = 48, SIG = 96, A = 1, KS = ks, ARM = arm, DRAWS = draws);
    instantiate_aad!(V = V, TAG = 48);
    instantiate_paserk!(V = V, PIE_OVER = 80, SECRET_LEN = 48, PW_PREFIX = 52, PW_OVER = 100, PW_PARAMS_OFF = 32, PW_PARAMS_LEN = 4, ARM = arm, DRAWS = draws);
    instantiate_pke!(V = V, PKE_LEN = 129, RCPT = rcpt(), ARM = arm, DRAWS = draws);
    instantiate_keys!(V = V, PUB_LEN = 49, SEC_LEN = 48, PUB_IN_SECRET = None, PUB_LENS = &[49, 97], ID_DOM = vmodel::D_SHA384, ID_PREFIX = &[], PASERK = b"k3");

    h!(local_nonce_is_draw_, local_nonce_is_draw::<V>(32, last_draw));

    /// C03: the blocks fed to AES are IV, IV+1 (mod 2^128): AES-256-CTR with a full-width big-endian
    /// counter, as the PASETO spec (OpenSSL aes-256-ctr) and the aws-lc backend use.
    h!(c03_public_ecdsa_twin_accepted, public_ecdsa_twin_accepted::<V>(2, 1, 1));
    h!(c03_local_ctr_counter_128bit, {
        let kb: [u8; 32] = kani::any();
        let key = forget(<V as HasKey<Local>>::decode(&kb)).unwrap();
        let msg = Bytes::any(17);
        let n0 = unsafe { aes::NBLOCKS };
        let sealed = forget(seal_like_lib::<V, Local>(&key, msg.s(), b"", b""));
        assert!(sealed.is_some());
        let n1 = unsafe { aes::NBLOCKS };
        assert!(n1 == n0 + 2, "17 bytes of plaintext must take exactly two AES blocks");
        let (b0, b1) = unsafe { (aes::BLOCKS[n0], aes::BLOCKS[n0 + 1]) };
        let want = u128::from_be_bytes(b0).wrapping_add(1).to_be_bytes();
        assert!(b1 == want, "AES-CTR counter is not a 128-bit big-endian counter");
        kani::cover!(b0[15] == 0xff && b0[14] == 0xff, "counter carries out of the low 16 bits");
        core::mem::forget(sealed);
    });
    /// C07: same for PIE key wrapping (IV derived) — 32-byte key = two blocks
    h!(c07_pie_ctr_counter_128bit, {
        let kb: [u8; 32] = kani::any();
        let wk = forget(<V as HasKey<Local>>::decode(&kb)).unwrap();
        let kd: [u8; 32] = kani::any();
        let mut v = alloc::vec::Vec::with_capacity(32);
        v.extend_from_slice(&kd);
        let n0 = unsafe { aes::NBLOCKS };
        let out = forget(<V as paseto_core::paserk::PieWrapVersion>::pie_wrap_key(".local-wrap.pie.", &wk, v));
        assert!(out.is_some());
        let (b0, b1) = unsafe { (aes::BLOCKS[n0], aes::BLOCKS[n0 + 1]) };
        assert!(unsafe { aes::NBLOCKS } == n0 + 2);
        let want = u128::from_be_bytes(b0).wrapping_add(1).to_be_bytes();
        assert!(b1 == want, "AES-CTR counter is not a 128-bit big-endian counter");
        kani::cover!(b0[15] == 0xff, "low byte carries");
        core::mem::forget(out);
    });
    h!(public_rng_fail_closed_, public_rng_fail_closed::<V>(arm, draws));
    h!(pw_rng_fail_closed_at0, pw_rng_fail_closed::<V, 0>(".local-pw.", arm, draws));
    h!(pw_rng_fail_closed_at1, pw_rng_fail_closed::<V, 1>(".local-pw.", arm, draws));
    h!(pke_rng_fail_closed_, {
        let r = rcpt();
        let key = forget(<V as HasKey<Local>>::decode(&[7u8; 32])).unwrap();
        arm(draws());
        let s = <V as PkeSealingVersion>::seal_key(&r.pk, key);
        assert!(s.is_err(), "seal_key ignored an RNG failure");
        kani::cover!(s.is_err());
        core::mem::forget(s);
    });
}
