//! MODEL of sha2 0.10: Sha256/Sha384/Sha512 as ideal functions over the recorded transcript.
#![no_std]
pub use digest::{self, Digest};
use digest::crypto_common::BlockSizeUser;
use digest::typenum::{U128, U32, U48, U64};
use digest::{FixedOutput, FixedOutputReset, HashMarker, Output, OutputSizeUser, Reset, Update};
use vmodel::{oracle, Transcript};

macro_rules! sha {
    ($name:ident, $out:ty, $block:ty, $dom:expr, $n:expr) => {
        #[derive(Clone)]
        pub struct $name {
            t: Transcript,
        }
        impl Default for $name {
            fn default() -> Self {
                Self { t: Transcript::new() }
            }
        }
        impl core::fmt::Debug for $name {
            fn fmt(&self, f: &mut core::fmt::Formatter<'_>) -> core::fmt::Result {
                f.write_str(stringify!($name))
            }
        }
        impl HashMarker for $name {}
        impl Update for $name {
            fn update(&mut self, d: &[u8]) {
                self.t.absorb(d)
            }
        }
        impl OutputSizeUser for $name {
            type OutputSize = $out;
        }
        impl BlockSizeUser for $name {
            type BlockSize = $block;
        }
        impl FixedOutput for $name {
            fn finalize_into(self, out: &mut Output<Self>) {
                let o = oracle($dom, &self.t);
                let mut i = 0;
                while i < $n {
                    out[i] = o[i];
                    i += 1;
                }
            }
        }
        impl Reset for $name {
            fn reset(&mut self) {
                self.t = Transcript::new();
            }
        }
        impl FixedOutputReset for $name {
            fn finalize_into_reset(&mut self, out: &mut Output<Self>) {
                let o = oracle($dom, &self.t);
                let mut i = 0;
                while i < $n {
                    out[i] = o[i];
                    i += 1;
                }
                self.t = Transcript::new();
            }
        }
        impl vmodel::HasTranscript for $name {
            fn transcript(&self) -> &Transcript {
                &self.t
            }
        }
    };
}
sha!(Sha256, U32, U64, vmodel::D_SHA256, 32);
sha!(Sha384, U48, U128, vmodel::D_SHA384, 48);
sha!(Sha512, U64, U128, vmodel::D_SHA512, 64);
