//! MODEL of chacha20 0.9: XChaCha20 keystream block i = ideal function of (key, nonce, i).
//! Bound: one 64-byte keystream block per cipher instance (longer streams are assumed away).
#![no_std]
pub use cipher;
use cipher::generic_array::GenericArray;
use cipher::inout::InOutBuf;
use cipher::typenum::{U24, U32};
use cipher::{IvSizeUser, KeyIvInit, KeySizeUser, StreamCipher, StreamCipherError};
use vmodel::{oracle, Transcript, D_CHACHA};

/// number of bytes of keystream applied by any XChaCha20 instance so far (C12: verify-then-decrypt)
pub static mut KEYSTREAM_APPLIED: usize = 0;

pub struct XChaCha20 {
    key: [u8; 32],
    nonce: [u8; 24],
    pos: usize,
}
impl KeySizeUser for XChaCha20 {
    type KeySize = U32;
}
impl IvSizeUser for XChaCha20 {
    type IvSize = U24;
}
impl KeyIvInit for XChaCha20 {
    fn new(k: &GenericArray<u8, U32>, n: &GenericArray<u8, U24>) -> Self {
        let mut key = [0; 32];
        key.copy_from_slice(k);
        let mut nonce = [0; 24];
        nonce.copy_from_slice(n);
        XChaCha20 { key, nonce, pos: 0 }
    }
}
pub fn keystream(key: &[u8; 32], nonce: &[u8; 24]) -> [u8; 64] {
    let mut t = Transcript::new();
    t.absorb(key);
    t.absorb(nonce);
    t.absorb(&0u64.to_le_bytes());
    oracle(D_CHACHA, &t)
}
impl StreamCipher for XChaCha20 {
    fn try_apply_keystream_inout(&mut self, mut buf: InOutBuf<'_, '_, u8>) -> Result<(), StreamCipherError> {
        let n = buf.len();
        #[cfg(kani)]
        kani::assume(self.pos + n <= 64);
        let ks = keystream(&self.key, &self.nonce);
        let mut i = 0;
        while i < n {
            let x = *buf.get(i).get_in() ^ ks[self.pos + i];
            *buf.get(i).get_out() = x;
            i += 1;
        }
        self.pos += n;
        unsafe {
            KEYSTREAM_APPLIED += n;
        }
        Ok(())
    }
}
