//! MODEL of pbkdf2 0.12: output = ideal function of (rounds, password, salt, output length).
#![no_std]
use vmodel::{oracle, Transcript, D_PBKDF2};
#[derive(Debug, Clone, Copy, PartialEq, Eq)]
pub struct InvalidLength;
pub static mut LAST_ROUNDS: u32 = 0;
pub static mut CALLS: usize = 0;
pub fn pbkdf2_array<PRF, const N: usize>(password: &[u8], salt: &[u8], rounds: u32) -> Result<[u8; N], InvalidLength> {
    vmodel::kdf_entry_guard();
    unsafe {
        LAST_ROUNDS = rounds;
        CALLS += 1;
    }
    let mut t = Transcript::new();
    t.absorb(&rounds.to_le_bytes());
    t.absorb(&[N as u8, password.len() as u8]);
    t.absorb(password);
    t.absorb(salt);
    let o = oracle(D_PBKDF2, &t);
    let mut out = [0u8; N];
    out.copy_from_slice(&o[..N]);
    Ok(out)
}
