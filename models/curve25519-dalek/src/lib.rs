//! MODEL of the subset of curve25519-dalek 4.1 used by paseto-v2 / paseto-v4.
//!   * EdwardsPoint = its 32-byte compressed encoding; base-point multiplication is an injective
//!     ideal function of the scalar bytes; the result is always a valid (decompressible) encoding.
//!   * decompress: Some iff an uninterpreted validity predicate holds for the 32 bytes.
//!   * to_montgomery: injective ideal function of the Edwards encoding.
//!   * X25519: a * B == b * A  (commutative), an ideal function of the unordered pair of public
//!     Montgomery points {a·G, B}.
#![no_std]
use vmodel::{assume_predicate, oracle, predicate, Transcript, D_ED_PUB, D_ED_VALID, D_TO_MONT, D_X25519};

pub mod scalar {
    #[derive(Clone, Copy, PartialEq, Eq)]
    pub struct Scalar {
        pub(crate) bytes: [u8; 32],
    }
    impl Scalar {
        pub fn from_bytes_mod_order(bytes: [u8; 32]) -> Scalar {
            Scalar { bytes }
        }
        pub fn to_bytes(&self) -> [u8; 32] {
            self.bytes
        }
        pub fn as_bytes(&self) -> &[u8; 32] {
            &self.bytes
        }
    }
    /// real code (curve25519-dalek 4.1.3 scalar.rs)
    pub const fn clamp_integer(mut bytes: [u8; 32]) -> [u8; 32] {
        bytes[0] &= 0b1111_1000;
        bytes[31] &= 0b0111_1111;
        bytes[31] |= 0b0100_0000;
        bytes
    }
}
pub use scalar::Scalar;

pub mod edwards {
    use super::*;
    #[derive(Clone, Copy, PartialEq, Eq)]
    pub struct EdwardsPoint {
        pub(crate) enc: [u8; 32],
    }
    #[derive(Clone, Copy, PartialEq, Eq)]
    pub struct CompressedEdwardsY(pub [u8; 32]);
    impl CompressedEdwardsY {
        pub fn decompress(&self) -> Option<EdwardsPoint> {
            if super::valid_encoding(&self.0) { Some(EdwardsPoint { enc: self.0 }) } else { None }
        }
        pub fn as_bytes(&self) -> &[u8; 32] {
            &self.0
        }
    }
    impl EdwardsPoint {
        pub fn mul_base(s: &Scalar) -> EdwardsPoint {
            let enc = super::public_of(&s.bytes);
            EdwardsPoint { enc }
        }
        pub fn compress(&self) -> CompressedEdwardsY {
            CompressedEdwardsY(self.enc)
        }
        pub fn to_montgomery(&self) -> super::montgomery::MontgomeryPoint {
            let o = oracle(D_TO_MONT, &Transcript::of(&[&self.enc]));
            let mut b = [0u8; 32];
            b.copy_from_slice(&o[..32]);
            super::montgomery::MontgomeryPoint(b)
        }
    }
}
pub use edwards::EdwardsPoint;

pub fn valid_encoding(b: &[u8; 32]) -> bool {
    predicate(D_ED_VALID, &Transcript::of(&[b]))
}
/// compressed public point of a scalar (shared with the ed25519-dalek model)
pub fn public_of(scalar: &[u8; 32]) -> [u8; 32] {
    let o = oracle(D_ED_PUB, &Transcript::of(&[scalar]));
    let mut enc = [0u8; 32];
    enc.copy_from_slice(&o[..32]);
    assume_predicate(D_ED_VALID, &Transcript::of(&[&enc]));
    enc
}

pub mod montgomery {
    use super::*;
    #[derive(Clone, Copy, PartialEq, Eq)]
    pub struct MontgomeryPoint(pub [u8; 32]);
    impl MontgomeryPoint {
        pub fn as_bytes(&self) -> &[u8; 32] {
            &self.0
        }
        pub fn to_bytes(&self) -> [u8; 32] {
            self.0
        }
    }
    fn dh(s: &Scalar, p: &MontgomeryPoint) -> MontgomeryPoint {
        let a = EdwardsPoint::mul_base(s).to_montgomery();
        // unordered pair {A, P}
        let mut a_first = true;
        let mut decided = false;
        let mut i = 0;
        while i < 32 {
            if !decided && a.0[i] != p.0[i] {
                a_first = a.0[i] < p.0[i];
                decided = true;
            }
            i += 1;
        }
        let t = if a_first { Transcript::of(&[&a.0, &p.0]) } else { Transcript::of(&[&p.0, &a.0]) };
        let o = oracle(D_X25519, &t);
        let mut b = [0u8; 32];
        b.copy_from_slice(&o[..32]);
        MontgomeryPoint(b)
    }
    impl core::ops::Mul<MontgomeryPoint> for Scalar {
        type Output = MontgomeryPoint;
        fn mul(self, p: MontgomeryPoint) -> MontgomeryPoint {
            dh(&self, &p)
        }
    }
    impl<'a, 'b> core::ops::Mul<&'b MontgomeryPoint> for &'a Scalar {
        type Output = MontgomeryPoint;
        fn mul(self, p: &'b MontgomeryPoint) -> MontgomeryPoint {
            dh(self, p)
        }
    }
    impl core::ops::Mul<Scalar> for MontgomeryPoint {
        type Output = MontgomeryPoint;
        fn mul(self, s: Scalar) -> MontgomeryPoint {
            dh(&s, &self)
        }
    }
}
pub use montgomery::MontgomeryPoint;
