//! MODEL of hmac 0.12: Hmac<D> = ideal function of (digest output size, key, data); any key length.
#![no_std]
use core::marker::PhantomData;
use digest::crypto_common::{BlockSizeUser, KeySizeUser};
use digest::generic_array::GenericArray;
pub use digest::{self, Mac};
use digest::{FixedOutput, FixedOutputReset, InvalidLength, KeyInit, MacMarker, Output, OutputSizeUser, Reset, Update};
use vmodel::{oracle, Transcript, D_HMAC};

pub struct Hmac<D> {
    key: Transcript,
    t: Transcript,
    _d: PhantomData<D>,
}
pub type SimpleHmac<D> = Hmac<D>;
impl<D> Clone for Hmac<D> {
    fn clone(&self) -> Self {
        Self { key: self.key, t: self.t, _d: PhantomData }
    }
}
impl<D> MacMarker for Hmac<D> {}
impl<D: BlockSizeUser> KeySizeUser for Hmac<D> {
    type KeySize = D::BlockSize;
}
impl<D: BlockSizeUser> KeyInit for Hmac<D> {
    fn new(key: &GenericArray<u8, Self::KeySize>) -> Self {
        Self::new_from_slice(key).unwrap()
    }
    fn new_from_slice(key: &[u8]) -> Result<Self, InvalidLength> {
        let mut k = Transcript::new();
        k.absorb(key);
        Ok(Self { key: k, t: Transcript::new(), _d: PhantomData })
    }
}
impl<D> Update for Hmac<D> {
    fn update(&mut self, d: &[u8]) {
        self.t.absorb(d)
    }
}
impl<D: OutputSizeUser> OutputSizeUser for Hmac<D> {
    type OutputSize = D::OutputSize;
}
impl<D: OutputSizeUser> Hmac<D> {
    fn out(&self, out: &mut Output<Self>) {
        use digest::typenum::Unsigned;
        let n = <D::OutputSize as Unsigned>::USIZE;
        let mut t = Transcript::new();
        t.absorb(&[n as u8, self.key.len as u8]);
        t.absorb(self.key.bytes());
        t.absorb(self.t.bytes());
        let o = oracle(D_HMAC, &t);
        let mut i = 0;
        while i < n {
            out[i] = o[i];
            i += 1;
        }
    }
}
impl<D: OutputSizeUser> FixedOutput for Hmac<D> {
    fn finalize_into(self, out: &mut Output<Self>) {
        self.out(out)
    }
}
impl<D> Reset for Hmac<D> {
    fn reset(&mut self) {
        self.t = Transcript::new();
    }
}
impl<D: OutputSizeUser> FixedOutputReset for Hmac<D> {
    fn finalize_into_reset(&mut self, out: &mut Output<Self>) {
        self.out(out);
        self.t = Transcript::new();
    }
}
