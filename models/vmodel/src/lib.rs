//! Ideal-primitive oracle: a memoised nondeterministic function over bounded transcripts.
//!
//! `oracle(dom, t)` returns a fresh `kani::any()` value constrained against every earlier query of
//! the same domain and transcript length by
//!   * functional consistency  (equal transcript  => equal output) and
//!   * collision freedom       (different transcript => outputs differ within their first 16 bytes).
//! This is hand-written Ackermannisation of an uninterpreted injective function.  Under it
//! "tamper => reject" becomes a structural statement about what paseto-rs feeds to the primitive
//! and how much of the result it compares.  Bounds (assumed, and guarded by reachability witnesses
//! in every harness): transcript <= TMAX bytes, <= QMAX queries.
#![no_std]
#![allow(static_mut_refs)]

#[cfg(not(feature = "big"))]
pub const TMAX: usize = 192;
#[cfg(feature = "big")]
pub const TMAX: usize = 640;
pub const OMAX: usize = 64;
pub const QMAX: usize = 40;

#[derive(Clone, Copy)]
pub struct Transcript {
    pub buf: [u8; TMAX],
    pub len: usize,
}
impl Transcript {
    pub const fn new() -> Self {
        Transcript { buf: [0; TMAX], len: 0 }
    }
    pub fn of(parts: &[&[u8]]) -> Self {
        let mut t = Transcript::new();
        let mut i = 0;
        while i < parts.len() {
            t.absorb(parts[i]);
            i += 1;
        }
        t
    }
    #[inline(never)]
    pub fn absorb(&mut self, s: &[u8]) {
        // bound: transcripts longer than TMAX are outside the model (assumed away; witnesses guard)
        #[cfg(kani)]
        kani::assume(self.len + s.len() <= TMAX);
        self.buf[self.len..self.len + s.len()].copy_from_slice(s);
        self.len += s.len();
    }
    pub fn bytes(&self) -> &[u8] {
        &self.buf[..self.len]
    }
    pub fn same(&self, o: &Transcript) -> bool {
        if self.len != o.len {
            return false;
        }
        let mut eq = true;
        let mut j = 0;
        while j < TMAX / 8 {
            eq &= word(&self.buf, j) == word(&o.buf, j);
            j += 1;
        }
        eq
    }
}

#[inline(always)]
fn word(b: &[u8; TMAX], j: usize) -> u64 {
    u64::from_le_bytes([b[8 * j], b[8 * j + 1], b[8 * j + 2], b[8 * j + 3], b[8 * j + 4], b[8 * j + 5], b[8 * j + 6], b[8 * j + 7]])
}

#[derive(Clone, Copy)]
pub struct Entry {
    pub valid: bool,
    pub dom: u8,
    pub t: Transcript,
    pub out: [u8; OMAX],
}
pub static mut TABLE: [Entry; QMAX] = [Entry { valid: false, dom: 0, t: Transcript::new(), out: [0; OMAX] }; QMAX];
pub static mut NQ: usize = 0;
/// set by the RNG models when an injected failure has been returned to the library; the KDF models
/// treat "key derivation starts although the random source failed during this operation" as a
/// fail-closed violation and end the path there (what follows is the expensive half of PBKW)
pub static mut RNG_FAILED: bool = false;
pub fn kdf_entry_guard() {
    unsafe {
        if RNG_FAILED {
            assert!(false, "key derivation started after the random source had failed (not fail-closed)");
            #[cfg(kani)]
            kani::assume(false);
        }
    }
}

/// number of oracle queries so far (harness-visible: the log doubles as the primitive-call transcript
/// for the spec-conformance harnesses)
pub fn queries() -> usize {
    unsafe { NQ }
}
pub fn query(i: usize) -> &'static Entry {
    unsafe { &TABLE[i] }
}

#[cfg(kani)]
fn fresh() -> [u8; OMAX] {
    kani::any()
}
#[cfg(not(kani))]
fn fresh() -> [u8; OMAX] {
    [0; OMAX]
}

/// Unpredictability of fresh outputs.  Collision freedom alone lets the solver choose the value of
/// a *new* transcript to be, say, the presented tag shifted by one byte (truncated / extended
/// tokens).  A harness therefore announces the adversary's finished message (`forbid`) right before
/// the operation under attack; from then on the first 16 bytes of the output of any transcript that
/// was not queried before must differ from every 16-byte window of that message — which a random
/// function satisfies except with negligible probability, and which is exactly "a fresh MAC /
/// signature value does not happen to equal a tag the adversary could present".
pub const FMAX: usize = 160;
pub static mut FORBID: [u8; FMAX] = [0; FMAX];
pub static mut FORBID_LEN: usize = 0;
pub fn forbid(msg: &[u8]) {
    unsafe {
        if msg.len() <= FMAX {
            FORBID[..msg.len()].copy_from_slice(msg);
            FORBID_LEN = msg.len();
        } else {
            // long messages: the first and the last FMAX/2 bytes (tags sit at one of the two ends)
            FORBID[..FMAX / 2].copy_from_slice(&msg[..FMAX / 2]);
            FORBID[FMAX / 2..].copy_from_slice(&msg[msg.len() - FMAX / 2..]);
            FORBID_LEN = FMAX;
        }
    }
}

#[inline(never)]
pub fn oracle(dom: u8, t: &Transcript) -> [u8; OMAX] {
    let out = fresh();
    let mut seen_before = false;
    unsafe {
        let n = NQ;
        let mut i = 0;
        while i < n {
            let e = &TABLE[i];
            // same domain: equal-length transcripts are compared word by word; transcripts of different
            // length are different inputs by construction.  Lengths are concrete on every path of the
            // harnesses, so non-aliasing pairs cost only the 16-byte output comparison.
            if e.valid && e.dom == dom {
                let mut same_in = e.t.len == t.len;
                if same_in {
                    let mut j = 0;
                    while j < TMAX / 8 {
                        same_in &= word(&e.t.buf, j) == word(&t.buf, j);
                        j += 1;
                    }
                }
                let mut same_out = true;
                let mut same_out16 = true;
                let mut j = 0;
                while j < OMAX / 8 {
                    let a = u64::from_le_bytes([e.out[8 * j], e.out[8 * j + 1], e.out[8 * j + 2], e.out[8 * j + 3], e.out[8 * j + 4], e.out[8 * j + 5], e.out[8 * j + 6], e.out[8 * j + 7]]);
                    let b = u64::from_le_bytes([out[8 * j], out[8 * j + 1], out[8 * j + 2], out[8 * j + 3], out[8 * j + 4], out[8 * j + 5], out[8 * j + 6], out[8 * j + 7]]);
                    let eq = a == b;
                    same_out &= eq;
                    if j < 2 {
                        same_out16 &= eq;
                    }
                    j += 1;
                }
                #[cfg(kani)]
                {
                    kani::assume(!same_in || same_out);
                    kani::assume(same_in || !same_out16);
                }
                seen_before |= same_in;
                let _ = (same_out, same_out16);
            }
            i += 1;
        }
        let fl = FORBID_LEN;
        if fl >= 16 {
            let o0 = u64::from_le_bytes([out[0], out[1], out[2], out[3], out[4], out[5], out[6], out[7]]);
            let o1 = u64::from_le_bytes([out[8], out[9], out[10], out[11], out[12], out[13], out[14], out[15]]);
            let mut w = 0;
            while w + 16 <= fl {
                let f0 = u64::from_le_bytes([FORBID[w], FORBID[w + 1], FORBID[w + 2], FORBID[w + 3], FORBID[w + 4], FORBID[w + 5], FORBID[w + 6], FORBID[w + 7]]);
                let f1 = u64::from_le_bytes([FORBID[w + 8], FORBID[w + 9], FORBID[w + 10], FORBID[w + 11], FORBID[w + 12], FORBID[w + 13], FORBID[w + 14], FORBID[w + 15]]);
                let hit = o0 == f0 && o1 == f1;
                #[cfg(kani)]
                kani::assume(seen_before || !hit);
                let _ = hit;
                w += 1;
            }
        }
        #[cfg(kani)]
        kani::assume(n < QMAX);
        TABLE[n] = Entry { valid: true, dom, t: *t, out };
        NQ = n + 1;
    }
    out
}

/// an uninterpreted predicate (e.g. "this encoding is a valid curve point"): deterministic per input
pub fn predicate(dom: u8, t: &Transcript) -> bool {
    oracle(dom, t)[63] & 1 == 1
}
/// force the predicate true for `t` (used when the model itself produced the value, e.g. a public key
/// derived from a secret is always a valid point)
pub fn assume_predicate(dom: u8, t: &Transcript) {
    let p = predicate(dom, t);
    #[cfg(kani)]
    kani::assume(p);
    let _ = p;
}

// domains
pub const D_BLAKE2: u8 = 1;
pub const D_CHACHA: u8 = 2;
pub const D_SHA384: u8 = 3;
pub const D_SHA512: u8 = 4;
pub const D_HMAC: u8 = 5;
pub const D_HKDF: u8 = 6;
pub const D_AES: u8 = 7;
pub const D_PBKDF2: u8 = 8;
pub const D_ARGON2: u8 = 9;
pub const D_AEAD_TAG: u8 = 10;
pub const D_ED_EXPAND: u8 = 11;
pub const D_ED_PUB: u8 = 12;
pub const D_ED_SIG: u8 = 13;
pub const D_ED_VALID: u8 = 14;
pub const D_TO_MONT: u8 = 15;
pub const D_X25519: u8 = 16;
pub const D_P384_PUB: u8 = 17;
pub const D_P384_SIG: u8 = 18;
pub const D_P384_VALID: u8 = 19;
pub const D_P384_DH: u8 = 20;
pub const D_RSA: u8 = 21;
pub const D_SHA256: u8 = 22;

/// implemented by model hash contexts so that other models (ed25519 signing) can read what was hashed
pub trait HasTranscript {
    fn transcript(&self) -> &Transcript;
}
