//! MODEL of the subset of libsodium-rs 0.2 used by paseto-v4-sodium.  The same ideal functions and
//! transcript layouts as the RustCrypto-side models (blake2, chacha20, ed25519-dalek,
//! curve25519-dalek, argon2) are used, so the two v4 backends can be compared transcript for
//! transcript.  Length and parameter checks are libsodium-rs 0.2.0's own (copied from its source).
#![allow(static_mut_refs)]
use curve25519_dalek::{EdwardsPoint, MontgomeryPoint, Scalar};
use vmodel::{oracle, Transcript};

#[derive(Debug, Clone, PartialEq, Eq)]
pub enum SodiumError {
    InvalidInput(&'static str),
    InvalidKey(&'static str),
    OperationError(&'static str),
}
impl core::fmt::Display for SodiumError {
    fn fmt(&self, f: &mut core::fmt::Formatter<'_>) -> core::fmt::Result {
        f.write_str("sodium model error")
    }
}
impl std::error::Error for SodiumError {}
pub type Result<T> = std::result::Result<T, SodiumError>;

pub mod random {
    /// number of draws so far; the most recent draws (libsodium's RNG has no error channel)
    pub static mut DRAWS: usize = 0;
    pub static mut LAST: [u8; 64] = [0; 64];
    pub fn fill_bytes(buf: &mut [u8]) {
        unsafe {
            let d = DRAWS;
            DRAWS = d + 1;
            #[cfg(kani)]
            {
                kani::assume(buf.len() <= 64);
                let r: [u8; 64] = kani::any();
                let n = buf.len();
                buf.copy_from_slice(&r[..n]);
                if d == 0 {
                    LAST = r;
                }
            }
        }
    }
    pub fn bytes(size: usize) -> Vec<u8> {
        let mut v = vec![0u8; size];
        fill_bytes(&mut v);
        v
    }
}

pub mod utils {
    /// sodium_compare over min(len) bytes (libsodium-rs 0.2.0): little-endian big-number comparison
    pub fn compare(a: &[u8], b: &[u8]) -> i32 {
        let n = a.len().min(b.len());
        let mut gt = 0u16;
        let mut eq = 1u16;
        let mut i = n;
        while i != 0 {
            i -= 1;
            let x1 = a[i] as u16;
            let x2 = b[i] as u16;
            gt |= ((x2.wrapping_sub(x1)) >> 8) & eq;
            eq &= ((x2 ^ x1).wrapping_sub(1)) >> 8;
        }
        (gt + gt + eq) as i32 - 1
    }
}

pub mod crypto_generichash {
    use super::*;
    pub const BYTES_MIN: usize = 16;
    pub const BYTES_MAX: usize = 64;
    pub const KEYBYTES_MIN: usize = 16;
    pub const KEYBYTES_MAX: usize = 64;
    pub struct State {
        key: Transcript,
        t: Transcript,
        output_len: usize,
    }
    impl State {
        pub fn new(key: Option<&[u8]>, output_len: usize) -> Result<Self> {
            if !(BYTES_MIN..=BYTES_MAX).contains(&output_len) {
                return Err(SodiumError::InvalidInput("output length"));
            }
            let mut k = Transcript::new();
            if let Some(key) = key {
                if key.len() < KEYBYTES_MIN || key.len() > KEYBYTES_MAX {
                    return Err(SodiumError::InvalidInput("key length"));
                }
                k.absorb(key);
            }
            Ok(State { key: k, t: Transcript::new(), output_len })
        }
        pub fn update(&mut self, input: &[u8]) {
            self.t.absorb(input)
        }
        pub fn finalize(&mut self) -> Vec<u8> {
            // same layout as the blake2 model: [out_len, key_len] ‖ key ‖ data
            let mut t = Transcript::new();
            t.absorb(&[self.output_len as u8, self.key.len as u8]);
            t.absorb(self.key.bytes());
            t.absorb(self.t.bytes());
            let o = oracle(vmodel::D_BLAKE2, &t);
            let mut v = Vec::with_capacity(64);
            v.extend_from_slice(&o[..self.output_len]);
            v
        }
    }
}

pub mod crypto_stream {
    use super::*;
    pub const KEYBYTES: usize = 32;
    #[derive(Clone)]
    pub struct Key([u8; 32]);
    impl Key {
        pub fn from_slice(slice: &[u8]) -> Result<Self> {
            if slice.len() != KEYBYTES {
                return Err(SodiumError::InvalidKey("key length"));
            }
            let mut k = [0u8; 32];
            k.copy_from_slice(slice);
            Ok(Key(k))
        }
        pub fn as_bytes(&self) -> &[u8; 32] {
            &self.0
        }
    }
    /// bytes of keystream applied so far (C12: verify-then-decrypt)
    pub static mut KEYSTREAM_APPLIED: usize = 0;
    pub mod xchacha20 {
        use super::super::*;
        pub const NONCEBYTES: usize = 24;
        #[derive(Clone)]
        pub struct Nonce([u8; 24]);
        impl Nonce {
            pub fn from_bytes(bytes: [u8; 24]) -> Self {
                Nonce(bytes)
            }
            pub fn try_from_slice(bytes: &[u8]) -> Result<Self> {
                if bytes.len() != 24 {
                    return Err(SodiumError::InvalidInput("nonce length"));
                }
                let mut n = [0u8; 24];
                n.copy_from_slice(bytes);
                Ok(Nonce(n))
            }
            pub fn as_bytes(&self) -> &[u8; 24] {
                &self.0
            }
        }
        impl From<[u8; 24]> for Nonce {
            fn from(b: [u8; 24]) -> Self {
                Nonce(b)
            }
        }
        pub fn stream_xor(message: &[u8], nonce: &Nonce, key: &super::Key) -> Result<Vec<u8>> {
            // same layout as the chacha20 model: key ‖ nonce ‖ LE64(0); one 64-byte block
            #[cfg(kani)]
            kani::assume(message.len() <= 64);
            let mut t = Transcript::new();
            t.absorb(&key.0);
            t.absorb(&nonce.0);
            t.absorb(&0u64.to_le_bytes());
            let ks = oracle(vmodel::D_CHACHA, &t);
            let mut out = Vec::with_capacity(64);
            let mut i = 0;
            while i < message.len() {
                out.push(message[i] ^ ks[i]);
                i += 1;
            }
            unsafe {
                super::KEYSTREAM_APPLIED += message.len();
            }
            Ok(out)
        }
    }
}

pub mod crypto_sign {
    use super::*;
    pub const PUBLICKEYBYTES: usize = 32;
    pub const SECRETKEYBYTES: usize = 64;
    pub const BYTES: usize = 64;
    pub const SEEDBYTES: usize = 32;
    #[derive(Clone, PartialEq, Eq)]
    pub struct PublicKey([u8; 32]);
    #[derive(Clone, PartialEq, Eq)]
    pub struct SecretKey([u8; 64]);
    pub struct KeyPair {
        pub public_key: PublicKey,
        pub secret_key: SecretKey,
    }
    impl PublicKey {
        /// libsodium-rs 0.2.0: only the length is checked
        pub fn from_bytes(bytes: &[u8]) -> Result<Self> {
            if bytes.len() != PUBLICKEYBYTES {
                return Err(SodiumError::InvalidInput("public key length"));
            }
            let mut k = [0u8; 32];
            k.copy_from_slice(bytes);
            Ok(PublicKey(k))
        }
        pub const fn from_bytes_exact(bytes: [u8; 32]) -> Self {
            PublicKey(bytes)
        }
        pub fn as_bytes(&self) -> &[u8; 32] {
            &self.0
        }
    }
    impl SecretKey {
        pub fn from_bytes(bytes: &[u8]) -> Result<Self> {
            if bytes.len() != SECRETKEYBYTES {
                return Err(SodiumError::InvalidInput("secret key length"));
            }
            let mut k = [0u8; 64];
            k.copy_from_slice(bytes);
            Ok(SecretKey(k))
        }
        pub const fn from_bytes_exact(bytes: [u8; 64]) -> Self {
            SecretKey(bytes)
        }
        pub fn as_bytes(&self) -> &[u8; 64] {
            &self.0
        }
    }
    /// (scalar, prefix) of a seed: the same ideal function as ed25519-dalek's ExpandedSecretKey::from
    fn expand(seed: &[u8]) -> [u8; 32] {
        let o = oracle(vmodel::D_ED_EXPAND, &Transcript::of(&[seed]));
        let mut s = [0u8; 32];
        s.copy_from_slice(&o[..32]);
        curve25519_dalek::scalar::clamp_integer(s)
    }
    pub fn keypair_from_seed(seed: &[u8; 32]) -> Result<KeyPair> {
        let scalar = expand(seed);
        let pk = curve25519_dalek::public_of(&scalar);
        let mut sk = [0u8; 64];
        sk[..32].copy_from_slice(seed);
        sk[32..].copy_from_slice(&pk);
        Ok(KeyPair { public_key: PublicKey(pk), secret_key: SecretKey(sk) })
    }
    fn sig_of(pk: &[u8; 32], msg: &[u8]) -> [u8; 64] {
        let mut t = Transcript::new();
        t.absorb(pk);
        t.absorb(msg);
        oracle(vmodel::D_ED_SIG, &t)
    }
    /// crypto_sign_detached signs with the seed and the public half stored in the 64-byte secret key
    pub fn sign_detached(message: &[u8], secret_key: &SecretKey) -> Result<[u8; 64]> {
        let mut pk = [0u8; 32];
        pk.copy_from_slice(&secret_key.0[32..]);
        let derived = curve25519_dalek::public_of(&expand(&secret_key.0[..32]));
        let mut s = sig_of(&pk, message);
        let mut same = true;
        let mut i = 0;
        while i < 32 {
            same &= derived[i] == pk[i];
            i += 1;
        }
        if !same {
            // a secret key whose public half does not belong to its seed yields signatures that do not verify
            s[0] ^= 1;
        }
        Ok(s)
    }
    pub fn verify_detached(signature: &[u8; 64], message: &[u8], public_key: &PublicKey) -> bool {
        if !curve25519_dalek::valid_encoding(&public_key.0) {
            return false;
        }
        let want = sig_of(&public_key.0, message);
        let mut eq = true;
        let mut i = 0;
        while i < 64 {
            eq &= want[i] == signature[i];
            i += 1;
        }
        eq
    }
    pub fn ed25519_pk_to_curve25519(pk: &PublicKey) -> Result<[u8; 32]> {
        match (curve25519_dalek::edwards::CompressedEdwardsY(pk.0)).decompress() {
            Some(p) => Ok(p.to_montgomery().0),
            None => Err(SodiumError::OperationError("conversion failed")),
        }
    }
    pub fn ed25519_sk_to_curve25519(sk: &SecretKey) -> Result<[u8; 32]> {
        Ok(expand(&sk.0[..32]))
    }
}

pub mod crypto_box {
    use super::*;
    #[derive(Clone)]
    pub struct PublicKey([u8; 32]);
    #[derive(Clone)]
    pub struct SecretKey([u8; 32]);
    impl PublicKey {
        pub fn as_bytes(&self) -> &[u8; 32] {
            &self.0
        }
    }
    impl SecretKey {
        pub fn as_bytes(&self) -> &[u8; 32] {
            &self.0
        }
    }
    pub struct KeyPair {
        pub public_key: PublicKey,
        pub secret_key: SecretKey,
    }
    impl KeyPair {
        pub fn generate() -> Self {
            let mut sk = [0u8; 32];
            super::random::fill_bytes(&mut sk);
            let s = Scalar::from_bytes_mod_order(curve25519_dalek::scalar::clamp_integer(sk));
            let pk = EdwardsPoint::mul_base(&s).to_montgomery();
            KeyPair { public_key: PublicKey(pk.0), secret_key: SecretKey(sk) }
        }
        pub fn into_tuple(self) -> (PublicKey, SecretKey) {
            (self.public_key, self.secret_key)
        }
    }
}

pub mod crypto_scalarmult {
    pub mod curve25519 {
        use super::super::*;
        pub const BYTES: usize = 32;
        pub const SCALARBYTES: usize = 32;
        pub fn scalarmult(secret_key: &[u8], public_key: &[u8]) -> Result<[u8; 32]> {
            if secret_key.len() != 32 || public_key.len() != 32 {
                return Err(SodiumError::InvalidInput("length"));
            }
            let mut s = [0u8; 32];
            s.copy_from_slice(secret_key);
            let mut p = [0u8; 32];
            p.copy_from_slice(public_key);
            let r = Scalar::from_bytes_mod_order(curve25519_dalek::scalar::clamp_integer(s)) * MontgomeryPoint(p);
            Ok(r.0)
        }
    }
}

pub mod crypto_pwhash {
    use super::*;
    pub const ALG_ARGON2ID13: i32 = 2;
    pub const BYTES_MIN: usize = 16;
    pub const BYTES_MAX: usize = 4294967295;
    pub const PASSWD_MAX: usize = 4294967295;
    pub const SALTBYTES: usize = 16;
    pub const OPSLIMIT_MIN: u64 = 1;
    pub const OPSLIMIT_MAX: u64 = 4294967295;
    pub const MEMLIMIT_MIN: usize = 8192;
    pub const MEMLIMIT_MAX: usize = 4_398_046_510_080;
    pub const OPSLIMIT_INTERACTIVE: u64 = 2;
    pub const MEMLIMIT_INTERACTIVE: usize = 67108864;
    /// (memlimit bytes, opslimit) of the most recent call
    pub static mut LAST_CALL: (usize, u64) = (0, 0);
    pub fn pwhash(out_len: usize, password: &[u8], salt: &[u8], opslimit: u64, memlimit: usize, alg: i32) -> Result<Vec<u8>> {
        if !(BYTES_MIN..=BYTES_MAX).contains(&out_len) {
            return Err(SodiumError::InvalidInput("output length"));
        }
        if salt.len() != SALTBYTES {
            return Err(SodiumError::InvalidInput("salt length"));
        }
        if !(OPSLIMIT_MIN..=OPSLIMIT_MAX).contains(&opslimit) {
            return Err(SodiumError::InvalidInput("opslimit"));
        }
        if !(MEMLIMIT_MIN..=MEMLIMIT_MAX).contains(&memlimit) {
            return Err(SodiumError::InvalidInput("memlimit"));
        }
        unsafe { LAST_CALL = (memlimit, opslimit) };
        // same layout as the argon2 model: alg/version/outlen, m (KiB), t, p=1, pwd, salt.
        // libsodium derives the block count as memlimit / 1024 (rounded down)
        let m_kib = (memlimit / 1024) as u32;
        let mut t = Transcript::new();
        t.absorb(&[alg as u8, 0x13, out_len as u8]);
        t.absorb(&m_kib.to_le_bytes());
        t.absorb(&(opslimit as u32).to_le_bytes());
        t.absorb(&1u32.to_le_bytes());
        t.absorb(&(password.len() as u32).to_le_bytes());
        t.absorb(password);
        t.absorb(salt);
        let o = oracle(vmodel::D_ARGON2, &t);
        #[cfg(kani)]
        kani::assume(out_len <= 64);
        let mut v = Vec::with_capacity(64);
        v.extend_from_slice(&o[..out_len]);
        Ok(v)
    }
}

/// libsodium-rs 0.2.0: initialises the C library once; nothing to do in the model
pub fn ensure_init() -> Result<()> {
    Ok(())
}
