//! MODEL of aes 0.8 (Aes256, encryption only): E_k(block) = ideal function of (key, block).
//! The REAL `ctr` crate drives it, so the sequence of counter blocks is produced by real code; every
//! block fed to the cipher is logged for the counter-width conformance harnesses.
#![no_std]
pub use cipher;
use cipher::consts::{U1, U16, U32};
use cipher::generic_array::GenericArray;
use cipher::inout::InOut;
use cipher::{Block, BlockBackend, BlockCipher, BlockClosure, BlockEncrypt, BlockSizeUser, Key, KeyInit, KeySizeUser, ParBlocksSizeUser};
use vmodel::{oracle, Transcript, D_AES};

pub static mut BLOCKS: [[u8; 16]; 8] = [[0; 16]; 8];
pub static mut NBLOCKS: usize = 0;

#[derive(Clone)]
pub struct Aes256 {
    key: [u8; 32],
}
impl KeySizeUser for Aes256 {
    type KeySize = U32;
}
impl KeyInit for Aes256 {
    fn new(key: &Key<Self>) -> Self {
        let mut k = [0u8; 32];
        k.copy_from_slice(key);
        Aes256 { key: k }
    }
}
impl BlockSizeUser for Aes256 {
    type BlockSize = U16;
}
impl BlockCipher for Aes256 {}
struct Backend<'a>(&'a Aes256);
impl<'a> BlockSizeUser for Backend<'a> {
    type BlockSize = U16;
}
impl<'a> ParBlocksSizeUser for Backend<'a> {
    type ParBlocksSize = U1;
}
impl<'a> BlockBackend for Backend<'a> {
    fn proc_block(&mut self, mut block: InOut<'_, '_, Block<Self>>) {
        let inb: GenericArray<u8, U16> = block.clone_in();
        let mut b = [0u8; 16];
        b.copy_from_slice(&inb);
        unsafe {
            let n = NBLOCKS;
            if n < 8 {
                BLOCKS[n] = b;
            }
            NBLOCKS = n + 1;
        }
        let o = oracle(D_AES, &Transcript::of(&[&self.0.key, &b]));
        block.get_out().copy_from_slice(&o[..16]);
    }
}
impl BlockEncrypt for Aes256 {
    fn encrypt_with_backend(&self, f: impl BlockClosure<BlockSize = U16>) {
        f.call(&mut Backend(self))
    }
}
