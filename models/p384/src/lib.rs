//! MODEL of the subset of p384 0.13 (+ ecdsa / elliptic-curve re-exports) used by paseto-v3.
//!   * scalars: valid iff 0 < d < n (real 384-bit big-endian comparison against the group order)
//!   * public point of d: injective ideal function of d; kept as its 49-byte compressed SEC1 form
//!   * SEC1 decoding: accepts exactly 02/03‖x (49 bytes) and 04‖x‖y (97 bytes) for which an
//!     uninterpreted on-curve predicate holds; rejects the identity encoding and every other length
//!   * ECDSA: signature(pk, digest) = ideal function, (r, s) never zero; verification accepts exactly
//!     it; signatures are already low-S (normalize_s = None)
//!   * ECDH: commutative ideal function of the unordered pair of compressed public points
#![no_std]
use generic_array::typenum::{U48, U96};
use generic_array::GenericArray;
use vmodel::{assume_predicate, oracle, predicate, HasTranscript, Transcript, D_P384_DH, D_P384_PUB, D_P384_SIG, D_P384_VALID};

pub type FieldBytes = GenericArray<u8, U48>;

pub const ORDER: [u8; 48] = [
    0xff, 0xff, 0xff, 0xff, 0xff, 0xff, 0xff, 0xff, 0xff, 0xff, 0xff, 0xff, 0xff, 0xff, 0xff, 0xff, 0xff, 0xff, 0xff, 0xff, 0xff, 0xff, 0xff, 0xff, 0xc7, 0x63, 0x4d, 0x81, 0xf4,
    0x37, 0x2d, 0xdf, 0x58, 0x1a, 0x0d, 0xb2, 0x48, 0xb0, 0xa7, 0x7a, 0xec, 0xec, 0x19, 0x6a, 0xcc, 0xc5, 0x29, 0x73,
];

#[derive(Debug, Clone, Copy, PartialEq, Eq)]
pub struct Error;
impl core::fmt::Display for Error {
    fn fmt(&self, f: &mut core::fmt::Formatter<'_>) -> core::fmt::Result {
        f.write_str("p384 model error")
    }
}

fn scalar_ok(b: &[u8]) -> bool {
    if b.len() != 48 {
        return false;
    }
    // 0 < b < n as six big-endian 64-bit words (lexicographic), cheaper for the solver than 48 bytes
    let w = |x: &[u8], i: usize| u64::from_be_bytes([x[8 * i], x[8 * i + 1], x[8 * i + 2], x[8 * i + 3], x[8 * i + 4], x[8 * i + 5], x[8 * i + 6], x[8 * i + 7]]);
    let mut nonzero = false;
    let mut less = false;
    let mut decided = false;
    let mut i = 0;
    while i < 6 {
        let (x, n) = (w(b, i), w(&ORDER, i));
        nonzero |= x != 0;
        if !decided && x != n {
            less = x < n;
            decided = true;
        }
        i += 1;
    }
    nonzero && decided && less
}

/// compressed public point of a valid scalar
fn public_of(d: &[u8; 48]) -> [u8; 49] {
    let o = oracle(D_P384_PUB, &Transcript::of(&[d]));
    let mut p = [0u8; 49];
    p[0] = 2 + (o[48] & 1);
    p[1..].copy_from_slice(&o[..48]);
    assume_predicate(D_P384_VALID, &Transcript::of(&[&p]));
    p
}
fn on_curve(compressed: &[u8; 49]) -> bool {
    predicate(D_P384_VALID, &Transcript::of(&[compressed]))
}

#[derive(Clone, Copy, PartialEq, Eq)]
pub struct EncodedPoint {
    b: [u8; 97],
    len: usize,
}
impl EncodedPoint {
    pub fn as_bytes(&self) -> &[u8] {
        &self.b[..self.len]
    }
    pub fn len(&self) -> usize {
        self.len
    }
    pub fn from_bytes(input: impl AsRef<[u8]>) -> Result<Self, Error> {
        let i = input.as_ref();
        // sec1::EncodedPoint::from_bytes: tag decides the expected length (identity = 1 byte)
        if i.is_empty() {
            return Err(Error);
        }
        let want = match i[0] {
            0 => 1,
            2 | 3 => 49,
            4 => 97,
            _ => return Err(Error),
        };
        if i.len() != want {
            return Err(Error);
        }
        let mut b = [0u8; 97];
        b[..want].copy_from_slice(i);
        Ok(EncodedPoint { b, len: want })
    }
    pub fn compress(&self) -> EncodedPoint {
        if self.len == 97 {
            let mut b = [0u8; 97];
            b[0] = 2 + (self.b[96] & 1);
            b[1..49].copy_from_slice(&self.b[1..49]);
            EncodedPoint { b, len: 49 }
        } else {
            *self
        }
    }
    fn compressed49(&self) -> Option<[u8; 49]> {
        let c = self.compress();
        if c.len != 49 {
            return None;
        }
        let mut p = [0u8; 49];
        p.copy_from_slice(&c.b[..49]);
        Some(p)
    }
}
impl AsRef<[u8]> for EncodedPoint {
    fn as_ref(&self) -> &[u8] {
        self.as_bytes()
    }
}

#[derive(Clone, Copy, PartialEq, Eq)]
pub struct AffinePoint {
    c: [u8; 49],
}
impl TryFrom<&EncodedPoint> for AffinePoint {
    type Error = Error;
    fn try_from(p: &EncodedPoint) -> Result<Self, Error> {
        match p.compressed49() {
            Some(c) if on_curve(&c) => Ok(AffinePoint { c }),
            _ => Err(Error),
        }
    }
}
fn encoded(c: &[u8; 49], compress: bool) -> EncodedPoint {
    let mut b = [0u8; 97];
    b[..49].copy_from_slice(c);
    if compress {
        EncodedPoint { b, len: 49 }
    } else {
        // the y coordinate is an (unmodelled) function of the point; only its parity is kept
        b[0] = 4;
        b[96] = c[0] & 1;
        EncodedPoint { b, len: 97 }
    }
}

#[derive(Clone, Copy, PartialEq, Eq)]
pub struct PublicKey {
    c: [u8; 49],
}
impl PublicKey {
    pub fn as_affine(&self) -> &AffinePoint {
        unsafe { &*(self as *const PublicKey as *const AffinePoint) }
    }
}
impl From<PublicKey> for EncodedPoint {
    fn from(p: PublicKey) -> EncodedPoint {
        encoded(&p.c, false)
    }
}
impl From<&PublicKey> for EncodedPoint {
    fn from(p: &PublicKey) -> EncodedPoint {
        encoded(&p.c, false)
    }
}

#[derive(Clone, Copy, PartialEq, Eq)]
pub struct NonZeroScalar {
    d: [u8; 48],
}

#[derive(Clone, PartialEq, Eq)]
pub struct SecretKey {
    d: [u8; 48],
}
impl SecretKey {
    pub fn from_slice(b: &[u8]) -> Result<Self, Error> {
        // elliptic-curve 0.13 accepts shorter inputs (>= 24 bytes for P-384) by left padding
        if b.len() == 48 {
            if !scalar_ok(b) {
                return Err(Error);
            }
            let mut d = [0u8; 48];
            d.copy_from_slice(b);
            Ok(SecretKey { d })
        } else if b.len() >= 24 && b.len() < 48 {
            let mut d = [0u8; 48];
            d[48 - b.len()..].copy_from_slice(b);
            if !scalar_ok(&d) {
                return Err(Error);
            }
            Ok(SecretKey { d })
        } else {
            Err(Error)
        }
    }
    pub fn from_bytes(b: &FieldBytes) -> Result<Self, Error> {
        Self::from_slice(b)
    }
    pub fn to_bytes(&self) -> FieldBytes {
        GenericArray::clone_from_slice(&self.d)
    }
    pub fn public_key(&self) -> PublicKey {
        PublicKey { c: public_of(&self.d) }
    }
    pub fn to_nonzero_scalar(&self) -> NonZeroScalar {
        NonZeroScalar { d: self.d }
    }
}
impl From<ecdsa::SigningKey> for SecretKey {
    fn from(k: ecdsa::SigningKey) -> Self {
        SecretKey { d: k.d }
    }
}
impl From<&ecdsa::SigningKey> for SecretKey {
    fn from(k: &ecdsa::SigningKey) -> Self {
        SecretKey { d: k.d }
    }
}

pub mod elliptic_curve {
    pub mod sec1 {
        pub trait ToEncodedPoint {
            fn to_encoded_point(&self, compress: bool) -> crate::EncodedPoint;
        }
        pub use crate::EncodedPoint;
    }
}
impl elliptic_curve::sec1::ToEncodedPoint for PublicKey {
    fn to_encoded_point(&self, compress: bool) -> EncodedPoint {
        encoded(&self.c, compress)
    }
}

pub mod ecdh {
    use super::*;
    pub struct SharedSecret {
        b: FieldBytes,
    }
    impl SharedSecret {
        pub fn raw_secret_bytes(&self) -> &FieldBytes {
            &self.b
        }
    }
    pub fn diffie_hellman(secret: impl core::borrow::Borrow<NonZeroScalar>, public: impl core::borrow::Borrow<AffinePoint>) -> SharedSecret {
        let a = public_of(&secret.borrow().d);
        let p = public.borrow().c;
        let mut a_first = true;
        let mut decided = false;
        let mut i = 0;
        while i < 49 {
            if !decided && a[i] != p[i] {
                a_first = a[i] < p[i];
                decided = true;
            }
            i += 1;
        }
        let t = if a_first { Transcript::of(&[&a, &p]) } else { Transcript::of(&[&p, &a]) };
        let o = oracle(D_P384_DH, &t);
        SharedSecret { b: GenericArray::clone_from_slice(&o[..48]) }
    }
}

pub mod ecdsa {
    use super::*;
    pub use super::Error;

    pub mod signature {
        pub trait DigestSigner<D, S> {
            fn sign_digest(&self, digest: D) -> S;
            fn try_sign_digest(&self, digest: D) -> Result<S, crate::Error> {
                Ok(self.sign_digest(digest))
            }
        }
        pub trait DigestVerifier<D, S> {
            fn verify_digest(&self, digest: D, signature: &S) -> Result<(), crate::Error>;
        }
    }

    #[derive(Clone, Copy, PartialEq, Eq)]
    pub struct Signature {
        b: [u8; 96],
    }
    impl Signature {
        pub fn from_bytes(bytes: &GenericArray<u8, U96>) -> Result<Self, Error> {
            // r and s must be non-zero scalars below the order
            if !scalar_ok(&bytes[..48]) || !scalar_ok(&bytes[48..]) {
                return Err(Error);
            }
            let mut b = [0u8; 96];
            b.copy_from_slice(bytes);
            Ok(Signature { b })
        }
        pub fn from_slice(bytes: &[u8]) -> Result<Self, Error> {
            if bytes.len() != 96 {
                return Err(Error);
            }
            Self::from_bytes(GenericArray::from_slice(bytes))
        }
        pub fn to_bytes(&self) -> GenericArray<u8, U96> {
            GenericArray::clone_from_slice(&self.b)
        }
        /// ECDSA malleability: (r, n - s) verifies whenever (r, s) does.  The model's stand-in for
        /// s -> n - s is the bitwise complement of the 48 s bytes (an involution that flips every bit, so
        /// no single-bit corruption reaches it); "high S" is the top bit of s.
        pub fn normalize_s(&self) -> Option<Self> {
            if self.b[48] & 0x80 != 0 {
                Some(Signature { b: twin(&self.b) })
            } else {
                None
            }
        }
    }
    pub(crate) fn twin(b: &[u8; 96]) -> [u8; 96] {
        let mut t = *b;
        let mut i = 48;
        while i < 96 {
            t[i] = !b[i];
            i += 1;
        }
        t
    }
    fn sig_of(pk: &[u8; 49], digest: &Transcript) -> [u8; 96] {
        let mut t1 = Transcript::new();
        t1.absorb(pk);
        t1.absorb(&[0]);
        t1.absorb(digest.bytes());
        let mut t2 = Transcript::new();
        t2.absorb(pk);
        t2.absorb(&[1]);
        t2.absorb(digest.bytes());
        let r = oracle(D_P384_SIG, &t1);
        let s = oracle(D_P384_SIG, &t2);
        let mut b = [0u8; 96];
        b[..48].copy_from_slice(&r[..48]);
        b[48..].copy_from_slice(&s[..48]);
        // a produced signature consists of valid scalars, and so does its twin
        #[cfg(kani)]
        {
            let t = twin(&b);
            kani::assume(scalar_ok(&b[..48]) && scalar_ok(&b[48..]) && scalar_ok(&t[48..]));
        }
        b
    }

    #[derive(Clone, Copy, PartialEq, Eq)]
    pub struct VerifyingKey {
        c: [u8; 49],
    }
    impl VerifyingKey {
        pub fn from_sec1_bytes(bytes: &[u8]) -> Result<Self, Error> {
            let p = EncodedPoint::from_bytes(bytes)?;
            let a = AffinePoint::try_from(&p)?;
            Ok(VerifyingKey { c: a.c })
        }
        pub fn to_encoded_point(&self, compress: bool) -> EncodedPoint {
            encoded(&self.c, compress)
        }
        pub fn as_affine(&self) -> &AffinePoint {
            unsafe { &*(self as *const VerifyingKey as *const AffinePoint) }
        }
    }
    impl<D: HasTranscript> signature::DigestVerifier<D, Signature> for VerifyingKey {
        fn verify_digest(&self, digest: D, signature: &Signature) -> Result<(), Error> {
            // accepts the ideal signature and its (r, n - s) twin, as ECDSA verification does
            let want = sig_of(&self.c, digest.transcript());
            let want2 = twin(&want);
            let mut eq = true;
            let mut eq2 = true;
            let mut i = 0;
            while i < 96 {
                eq &= want[i] == signature.b[i];
                eq2 &= want2[i] == signature.b[i];
                i += 1;
            }
            if eq || eq2 { Ok(()) } else { Err(Error) }
        }
    }

    #[derive(Clone)]
    pub struct SigningKey {
        pub(crate) d: [u8; 48],
        vk: VerifyingKey,
    }
    impl SigningKey {
        pub fn from_bytes(b: &FieldBytes) -> Result<Self, Error> {
            if !scalar_ok(b) {
                return Err(Error);
            }
            let mut d = [0u8; 48];
            d.copy_from_slice(b);
            Ok(SigningKey { d, vk: VerifyingKey { c: public_of(&d) } })
        }
        pub fn from_slice(b: &[u8]) -> Result<Self, Error> {
            if b.len() != 48 {
                return Err(Error);
            }
            Self::from_bytes(GenericArray::from_slice(b))
        }
        pub fn verifying_key(&self) -> &VerifyingKey {
            &self.vk
        }
        pub fn to_bytes(&self) -> FieldBytes {
            GenericArray::clone_from_slice(&self.d)
        }
    }
    impl From<SecretKey> for SigningKey {
        fn from(k: SecretKey) -> Self {
            SigningKey { d: k.d, vk: VerifyingKey { c: public_of(&k.d) } }
        }
    }
    impl From<&SecretKey> for SigningKey {
        fn from(k: &SecretKey) -> Self {
            SigningKey { d: k.d, vk: VerifyingKey { c: public_of(&k.d) } }
        }
    }
    impl<D: HasTranscript> signature::DigestSigner<D, Signature> for SigningKey {
        fn sign_digest(&self, digest: D) -> Signature {
            Signature { b: sig_of(&self.vk.c, digest.transcript()) }
        }
    }
}
