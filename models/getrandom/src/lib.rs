//! MODEL of getrandom 0.3: every draw yields arbitrary bytes, or fails at the armed draw index.
#![no_std]
#[derive(Debug, Clone, Copy, PartialEq, Eq)]
pub struct Error;
impl core::fmt::Display for Error {
    fn fmt(&self, f: &mut core::fmt::Formatter<'_>) -> core::fmt::Result {
        f.write_str("getrandom model error")
    }
}
/// draw index at which `fill` fails (usize::MAX = never)
pub static mut FAIL_AT: usize = usize::MAX;
/// number of draws so far
pub static mut DRAWS: usize = 0;
/// copy of the most recent successful draws (first 64 bytes each, up to 4 draws) for the harnesses
pub static mut LAST: [[u8; 64]; 4] = [[0; 64]; 4];
pub static mut LAST_LEN: [usize; 4] = [0; 4];

pub fn fill(dest: &mut [u8]) -> Result<(), Error> {
    unsafe {
        let d = DRAWS;
        DRAWS = d + 1;
        if d == FAIL_AT {
            return Err(Error);
        }
        #[cfg(kani)]
        {
            // bound of the model: draws of at most 64 bytes
            kani::assume(dest.len() <= 64);
            let r: [u8; 64] = kani::any();
            let n = dest.len();
            dest.copy_from_slice(&r[..n]);
            if d < 4 {
                LAST[d] = r;
                LAST_LEN[d] = n;
            }
        }
    }
    Ok(())
}
pub fn u32() -> Result<u32, Error> {
    let mut b = [0u8; 4];
    fill(&mut b)?;
    Ok(u32::from_le_bytes(b))
}
pub fn u64() -> Result<u64, Error> {
    let mut b = [0u8; 8];
    fill(&mut b)?;
    Ok(u64::from_le_bytes(b))
}
