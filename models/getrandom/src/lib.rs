//! MODEL of getrandom 0.3: every draw yields arbitrary bytes, or fails at the armed draw index.
#![no_std]
#[derive(Debug, Clone, Copy, PartialEq, Eq)]
pub struct Error;
impl core::fmt::Display for Error {
    fn fmt(&self, f: &mut core::fmt::Formatter<'_>) -> core::fmt::Result {
        f.write_str("getrandom model error")
    }
}
/// draw index at which `fill` fails (usize::MAX = never)
pub static mut FAIL_AT: usize = usize::MAX;
/// number of draws so far
pub static mut DRAWS: usize = 0;
/// copy of the most recent successful draws (first 64 bytes each, up to 4 draws) for the harnesses
pub static mut LAST: [[u8; 64]; 4] = [[0; 64]; 4];
pub static mut LAST_LEN: [usize; 4] = [0; 4];

/// when set, 48-byte draws are assumed to be valid P-384 scalars (0 < d < n): paseto-v3's key
/// generation retries in an unbounded loop otherwise; the excluded fraction of RNG outputs is 2^-190
pub static mut ASSUME_48_IS_P384_SCALAR: bool = false;
const P384_ORDER: [u8; 48] = [
    0xff, 0xff, 0xff, 0xff, 0xff, 0xff, 0xff, 0xff, 0xff, 0xff, 0xff, 0xff, 0xff, 0xff, 0xff, 0xff, 0xff, 0xff, 0xff, 0xff, 0xff, 0xff, 0xff, 0xff, 0xc7, 0x63, 0x4d, 0x81, 0xf4,
    0x37, 0x2d, 0xdf, 0x58, 0x1a, 0x0d, 0xb2, 0x48, 0xb0, 0xa7, 0x7a, 0xec, 0xec, 0x19, 0x6a, 0xcc, 0xc5, 0x29, 0x73,
];
fn p384_scalar_ok(b: &[u8]) -> bool {
    if b.len() != 48 {
        return false;
    }
    // 0 < b < n as six big-endian 64-bit words (lexicographic), cheaper for the solver than 48 bytes
    let w = |x: &[u8], i: usize| u64::from_be_bytes([x[8 * i], x[8 * i + 1], x[8 * i + 2], x[8 * i + 3], x[8 * i + 4], x[8 * i + 5], x[8 * i + 6], x[8 * i + 7]]);
    let mut nonzero = false;
    let mut less = false;
    let mut decided = false;
    let mut i = 0;
    while i < 6 {
        let (x, n) = (w(b, i), w(&P384_ORDER, i));
        nonzero |= x != 0;
        if !decided && x != n {
            less = x < n;
            decided = true;
        }
        i += 1;
    }
    nonzero && decided && less
}

pub fn fill(dest: &mut [u8]) -> Result<(), Error> {
    unsafe {
        let d = DRAWS;
        DRAWS = d + 1;
        if d == FAIL_AT {
            vmodel::RNG_FAILED = true;
            return Err(Error);
        }
        #[cfg(kani)]
        {
            // bound of the model: draws of at most 64 bytes
            kani::assume(dest.len() <= 64);
            let r: [u8; 64] = kani::any();
            let n = dest.len();
            if n == 48 && ASSUME_48_IS_P384_SCALAR {
                kani::assume(p384_scalar_ok(&r[..48]));
            }
            dest.copy_from_slice(&r[..n]);
            if d < 4 {
                LAST[d] = r;
                LAST_LEN[d] = n;
            }
        }
    }
    Ok(())
}
pub fn u32() -> Result<u32, Error> {
    let mut b = [0u8; 4];
    fill(&mut b)?;
    Ok(u32::from_le_bytes(b))
}
pub fn u64() -> Result<u64, Error> {
    let mut b = [0u8; 8];
    fill(&mut b)?;
    Ok(u64::from_le_bytes(b))
}
