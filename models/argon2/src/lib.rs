//! MODEL of argon2 0.5: parameter validation as documented by the crate (Params::MIN/MAX_*), the
//! hash itself an ideal function of (algorithm, version, m, t, p, password, salt, output length).
#![no_std]
use vmodel::{oracle, Transcript, D_ARGON2};

#[derive(Debug, Clone, Copy, PartialEq, Eq)]
pub enum Error {
    MemoryTooLittle,
    MemoryTooMuch,
    OutputTooShort,
    OutputTooLong,
    SaltTooShort,
    SaltTooLong,
    ThreadsTooFew,
    ThreadsTooMany,
    TimeTooSmall,
}
pub type Result<T> = core::result::Result<T, Error>;

#[derive(Clone, Copy, PartialEq, Eq)]
pub enum Algorithm {
    Argon2d = 0,
    Argon2i = 1,
    Argon2id = 2,
}
#[derive(Clone, Copy, PartialEq, Eq)]
pub enum Version {
    V0x10 = 0x10,
    V0x13 = 0x13,
}

#[derive(Clone, Copy, PartialEq, Eq)]
pub struct Params {
    m_cost: u32,
    t_cost: u32,
    p_cost: u32,
}
impl Params {
    pub const DEFAULT_M_COST: u32 = 19 * 1024;
    pub const MIN_M_COST: u32 = 2 * 4; // 2 * SYNC_POINTS
    pub const MAX_M_COST: u32 = u32::MAX;
    pub const DEFAULT_T_COST: u32 = 2;
    pub const MIN_T_COST: u32 = 1;
    pub const MAX_T_COST: u32 = u32::MAX;
    pub const DEFAULT_P_COST: u32 = 1;
    pub const MIN_P_COST: u32 = 1;
    pub const MAX_P_COST: u32 = 0xFFFFFF;
    pub const DEFAULT_OUTPUT_LEN: usize = 32;
    pub const MIN_OUTPUT_LEN: usize = 4;
    pub const MAX_OUTPUT_LEN: usize = 0xFFFFFFFF;
    pub const MIN_SALT_LEN: usize = 8;
    pub const fn m_cost(&self) -> u32 {
        self.m_cost
    }
    pub const fn t_cost(&self) -> u32 {
        self.t_cost
    }
    pub const fn p_cost(&self) -> u32 {
        self.p_cost
    }
}
/// arguments of the most recent ParamsBuilder::build (read by the parameter-domain harnesses)
pub static mut LAST_BUILD: (u32, u32, u32) = (0, 0, 0);
pub static mut BUILDS: usize = 0;
pub struct ParamsBuilder {
    m_cost: u32,
    t_cost: u32,
    p_cost: u32,
}
impl ParamsBuilder {
    pub const fn new() -> Self {
        ParamsBuilder { m_cost: Params::DEFAULT_M_COST, t_cost: Params::DEFAULT_T_COST, p_cost: Params::DEFAULT_P_COST }
    }
    pub fn m_cost(&mut self, v: u32) -> &mut Self {
        self.m_cost = v;
        self
    }
    pub fn t_cost(&mut self, v: u32) -> &mut Self {
        self.t_cost = v;
        self
    }
    pub fn p_cost(&mut self, v: u32) -> &mut Self {
        self.p_cost = v;
        self
    }
    /// argon2 0.5.3 ParamsBuilder::build (Params::new)
    pub fn build(&self) -> Result<Params> {
        unsafe {
            LAST_BUILD = (self.m_cost, self.t_cost, self.p_cost);
            BUILDS += 1;
        }
        if self.m_cost < Params::MIN_M_COST {
            return Err(Error::MemoryTooLittle);
        }
        // Note: we don't need to check `MAX_M_COST`, since it's `u32::MAX`
        if self.m_cost < self.p_cost * 8 {
            return Err(Error::MemoryTooLittle);
        }
        if self.t_cost < Params::MIN_T_COST {
            return Err(Error::TimeTooSmall);
        }
        if self.p_cost < Params::MIN_P_COST {
            return Err(Error::ThreadsTooFew);
        }
        if self.p_cost > Params::MAX_P_COST {
            return Err(Error::ThreadsTooMany);
        }
        Ok(Params { m_cost: self.m_cost, t_cost: self.t_cost, p_cost: self.p_cost })
    }
}

pub struct Argon2<'key> {
    alg: Algorithm,
    ver: Version,
    params: Params,
    _k: core::marker::PhantomData<&'key ()>,
}
/// parameters of the most recent hash_password_into call (read by the spec-conformance harnesses)
pub static mut LAST_CALL: (u32, u32, u32, u8, u8) = (0, 0, 0, 0, 0);
pub static mut CALLS: usize = 0;
/// parameter-domain harnesses: when set, reaching the KDF asserts the harness's expectation
/// (`EXPECT_VALID`) and then ends the path (the hash itself is not the subject there)
pub static mut ABORT_AT_KDF: bool = false;
pub static mut EXPECT_VALID: bool = true;
impl<'key> Argon2<'key> {
    pub fn new(alg: Algorithm, ver: Version, params: Params) -> Self {
        Argon2 { alg, ver, params, _k: core::marker::PhantomData }
    }
    pub fn hash_password_into(&self, pwd: &[u8], salt: &[u8], out: &mut [u8]) -> Result<()> {
        if out.len() < Params::MIN_OUTPUT_LEN {
            return Err(Error::OutputTooShort);
        }
        if salt.len() < Params::MIN_SALT_LEN {
            return Err(Error::SaltTooShort);
        }
        vmodel::kdf_entry_guard();
        unsafe {
            LAST_CALL = (self.params.m_cost, self.params.t_cost, self.params.p_cost, self.alg as u8, self.ver as u8);
            CALLS += 1;
            if ABORT_AT_KDF {
                assert!(EXPECT_VALID, "the KDF was reached with cost parameters the specification rejects");
                #[cfg(kani)]
                kani::assume(false);
            }
        }
        let mut t = Transcript::new();
        t.absorb(&[self.alg as u8, self.ver as u8, out.len() as u8]);
        t.absorb(&self.params.m_cost.to_le_bytes());
        t.absorb(&self.params.t_cost.to_le_bytes());
        t.absorb(&self.params.p_cost.to_le_bytes());
        t.absorb(&(pwd.len() as u32).to_le_bytes());
        t.absorb(pwd);
        t.absorb(salt);
        let o = oracle(D_ARGON2, &t);
        #[cfg(kani)]
        kani::assume(out.len() <= 64);
        let n = out.len();
        out.copy_from_slice(&o[..n]);
        Ok(())
    }
}
