//! MODEL of blake2 0.10: Blake2b<O> / Blake2bMac<O> as ideal functions over recorded transcripts.
//! Transcript = [out_len, key_len] ‖ key ‖ data  (out_len and key_len are part of the BLAKE2
//! parameter block, so different output sizes / keys are different functions, as in the real one).
#![no_std]
use core::marker::PhantomData;
use digest::crypto_common::KeySizeUser;
use digest::generic_array::{ArrayLength, GenericArray};
use digest::typenum::{IsLessOrEqual, LeEq, NonZero, U64};
pub use digest::{self, Digest};
use digest::{FixedOutput, HashMarker, InvalidLength, KeyInit, MacMarker, Output, OutputSizeUser, Update};
use vmodel::{oracle, Transcript, D_BLAKE2};

pub struct Blake2b<O> {
    t: Transcript,
    _o: PhantomData<O>,
}
impl<O> Default for Blake2b<O> {
    fn default() -> Self {
        Self { t: Transcript::new(), _o: PhantomData }
    }
}
impl<O> Clone for Blake2b<O> {
    fn clone(&self) -> Self {
        Self { t: self.t, _o: PhantomData }
    }
}
impl<O> HashMarker for Blake2b<O> {}
impl<O> Update for Blake2b<O> {
    fn update(&mut self, d: &[u8]) {
        self.t.absorb(d)
    }
}
impl<O: ArrayLength<u8> + IsLessOrEqual<U64>> OutputSizeUser for Blake2b<O>
where
    LeEq<O, U64>: NonZero,
{
    type OutputSize = O;
}
impl<O: ArrayLength<u8> + IsLessOrEqual<U64>> FixedOutput for Blake2b<O>
where
    LeEq<O, U64>: NonZero,
{
    fn finalize_into(self, out: &mut Output<Self>) {
        let mut t = Transcript::new();
        t.absorb(&[O::USIZE as u8, 0]);
        t.absorb(self.t.bytes());
        let o = oracle(D_BLAKE2, &t);
        let mut i = 0;
        while i < O::USIZE {
            out[i] = o[i];
            i += 1;
        }
    }
}
pub type Blake2b512 = Blake2b<U64>;

pub struct Blake2bMac<O> {
    key: Transcript,
    t: Transcript,
    _o: PhantomData<O>,
}
impl<O> Clone for Blake2bMac<O> {
    fn clone(&self) -> Self {
        Self { key: self.key, t: self.t, _o: PhantomData }
    }
}
impl<O> MacMarker for Blake2bMac<O> {}
impl<O: ArrayLength<u8> + IsLessOrEqual<U64>> KeySizeUser for Blake2bMac<O>
where
    LeEq<O, U64>: NonZero,
{
    type KeySize = U64;
}
impl<O: ArrayLength<u8> + IsLessOrEqual<U64>> KeyInit for Blake2bMac<O>
where
    LeEq<O, U64>: NonZero,
{
    fn new(key: &GenericArray<u8, U64>) -> Self {
        Self::new_from_slice(key).unwrap()
    }
    fn new_from_slice(key: &[u8]) -> Result<Self, InvalidLength> {
        // contract of blake2 0.10.6 (new_with_salt_and_personal): key.len() <= 64
        if key.len() > 64 {
            return Err(InvalidLength);
        }
        let mut k = Transcript::new();
        k.absorb(key);
        Ok(Self { key: k, t: Transcript::new(), _o: PhantomData })
    }
}
impl<O> Update for Blake2bMac<O> {
    fn update(&mut self, d: &[u8]) {
        self.t.absorb(d)
    }
}
impl<O: ArrayLength<u8> + IsLessOrEqual<U64>> OutputSizeUser for Blake2bMac<O>
where
    LeEq<O, U64>: NonZero,
{
    type OutputSize = O;
}
impl<O: ArrayLength<u8> + IsLessOrEqual<U64>> FixedOutput for Blake2bMac<O>
where
    LeEq<O, U64>: NonZero,
{
    fn finalize_into(self, out: &mut Output<Self>) {
        let mut t = Transcript::new();
        t.absorb(&[O::USIZE as u8, self.key.len as u8]);
        t.absorb(self.key.bytes());
        t.absorb(self.t.bytes());
        let o = oracle(D_BLAKE2, &t);
        let mut i = 0;
        while i < O::USIZE {
            out[i] = o[i];
            i += 1;
        }
    }
}
