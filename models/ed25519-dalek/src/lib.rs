//! MODEL of the subset of ed25519-dalek 2.x used by paseto-v2 / paseto-v4 (ideal signature scheme).
//!   * ExpandedSecretKey::from(seed): (scalar, prefix) = ideal function of the seed.
//!   * VerifyingKey::from(&esk) = compressed base-point multiple of the scalar (curve25519 model).
//!   * VerifyingKey::from_bytes: Ok iff the uninterpreted validity predicate holds (the real crate
//!     accepts every decompressible encoding, including small-order points).
//!   * signature(pk, msg) = ideal function of (pk ‖ msg); verification accepts exactly that value
//!     (so acceptance <=> same key, same message, same 64 bytes).
#![no_std]
use curve25519_dalek::scalar::Scalar;
use vmodel::{oracle, HasTranscript, Transcript, D_ED_EXPAND, D_ED_SIG};

pub type SecretKey = [u8; 32];
pub const SECRET_KEY_LENGTH: usize = 32;
pub const PUBLIC_KEY_LENGTH: usize = 32;
pub const SIGNATURE_LENGTH: usize = 64;

#[derive(Debug, Clone, Copy, PartialEq, Eq)]
pub struct SignatureError;
impl core::fmt::Display for SignatureError {
    fn fmt(&self, f: &mut core::fmt::Formatter<'_>) -> core::fmt::Result {
        f.write_str("signature error")
    }
}

#[derive(Clone, Copy, PartialEq, Eq)]
pub struct Signature(pub(crate) [u8; 64]);
impl Signature {
    pub fn from_bytes(b: &[u8; 64]) -> Signature {
        Signature(*b)
    }
    pub fn to_bytes(&self) -> [u8; 64] {
        self.0
    }
}

#[derive(Clone, Copy, PartialEq, Eq)]
pub struct VerifyingKey {
    pub(crate) bytes: [u8; 32],
}
impl VerifyingKey {
    pub fn from_bytes(b: &[u8; 32]) -> Result<VerifyingKey, SignatureError> {
        if curve25519_dalek::valid_encoding(b) { Ok(VerifyingKey { bytes: *b }) } else { Err(SignatureError) }
    }
    pub fn as_bytes(&self) -> &[u8; 32] {
        &self.bytes
    }
    pub fn to_bytes(&self) -> [u8; 32] {
        self.bytes
    }
    pub fn verify_stream(&self, signature: &Signature) -> Result<StreamVerifier, SignatureError> {
        let mut t = Transcript::new();
        t.absorb(&self.bytes);
        Ok(StreamVerifier { t, sig: *signature })
    }
}
impl From<&hazmat::ExpandedSecretKey> for VerifyingKey {
    fn from(esk: &hazmat::ExpandedSecretKey) -> VerifyingKey {
        VerifyingKey { bytes: curve25519_dalek::public_of(esk.scalar.as_bytes()) }
    }
}

pub(crate) fn sig_of(t: &Transcript) -> [u8; 64] {
    oracle(D_ED_SIG, t)
}

pub struct StreamVerifier {
    t: Transcript,
    sig: Signature,
}
impl StreamVerifier {
    pub fn update(&mut self, chunk: impl AsRef<[u8]>) {
        self.t.absorb(chunk.as_ref());
    }
    pub fn finalize_and_verify(self) -> Result<(), SignatureError> {
        let want = sig_of(&self.t);
        let mut eq = true;
        let mut i = 0;
        while i < 64 {
            eq &= want[i] == self.sig.0[i];
            i += 1;
        }
        if eq { Ok(()) } else { Err(SignatureError) }
    }
}

pub mod hazmat {
    use super::*;
    pub struct ExpandedSecretKey {
        pub scalar: Scalar,
        pub hash_prefix: [u8; 32],
    }
    impl From<&SecretKey> for ExpandedSecretKey {
        fn from(seed: &SecretKey) -> Self {
            let o = oracle(D_ED_EXPAND, &Transcript::of(&[seed]));
            let mut s = [0u8; 32];
            s.copy_from_slice(&o[..32]);
            let mut p = [0u8; 32];
            p.copy_from_slice(&o[32..64]);
            ExpandedSecretKey { scalar: Scalar::from_bytes_mod_order(curve25519_dalek::scalar::clamp_integer(s)), hash_prefix: p }
        }
    }
    /// the message is whatever `msg_update` feeds to the context (it may be called more than once by
    /// the real crate; it is a pure `Fn`, so once is equivalent)
    pub fn raw_sign_byupdate<CtxDigest, F>(esk: &ExpandedSecretKey, msg_update: F, verifying_key: &VerifyingKey) -> Result<Signature, SignatureError>
    where
        CtxDigest: Default + HasTranscript,
        F: Fn(&mut CtxDigest) -> Result<(), SignatureError>,
    {
        let mut ctx = CtxDigest::default();
        msg_update(&mut ctx)?;
        let mut t = Transcript::new();
        t.absorb(&verifying_key.bytes);
        t.absorb(ctx.transcript().bytes());
        let good = VerifyingKey::from(esk) == *verifying_key;
        let mut s = sig_of(&t);
        if !good {
            // signing under a mismatched public key yields a signature that does not verify
            s[0] ^= 1;
        }
        Ok(Signature(s))
    }
}
