//! MODEL of chacha20poly1305 0.10 (XChaCha20Poly1305, detached in-place API).
//! keystream = the chacha20 model's block for (key, nonce); tag = ideal function of
//! (key, nonce, aad, ciphertext) truncated to 16 bytes; decryption checks the tag *before* XOR
//! (as the real crate does) and leaves the buffer untouched on failure.
#![no_std]
pub use aead;
use aead::generic_array::GenericArray;
use aead::generic_array::typenum::{U0, U16, U24, U32};
use aead::{AeadCore, AeadInPlace, Error, KeyInit, KeySizeUser};
use vmodel::{oracle, Transcript, D_AEAD_TAG};

pub type Key = GenericArray<u8, U32>;
pub type XNonce = GenericArray<u8, U24>;
pub type Tag = GenericArray<u8, U16>;

pub struct XChaCha20Poly1305 {
    key: [u8; 32],
}
impl KeySizeUser for XChaCha20Poly1305 {
    type KeySize = U32;
}
impl KeyInit for XChaCha20Poly1305 {
    fn new(key: &Key) -> Self {
        let mut k = [0u8; 32];
        k.copy_from_slice(key);
        XChaCha20Poly1305 { key: k }
    }
}
impl AeadCore for XChaCha20Poly1305 {
    type NonceSize = U24;
    type TagSize = U16;
    type CiphertextOverhead = U0;
}
fn tag_of(key: &[u8; 32], nonce: &[u8], aad: &[u8], ct: &[u8]) -> [u8; 16] {
    let mut t = Transcript::new();
    t.absorb(key);
    t.absorb(nonce);
    t.absorb(&(aad.len() as u32).to_le_bytes());
    t.absorb(aad);
    t.absorb(ct);
    let o = oracle(D_AEAD_TAG, &t);
    let mut r = [0u8; 16];
    r.copy_from_slice(&o[..16]);
    r
}
fn xor(key: &[u8; 32], nonce: &[u8], buf: &mut [u8]) {
    #[cfg(kani)]
    kani::assume(buf.len() <= 64);
    let mut n = [0u8; 24];
    n.copy_from_slice(nonce);
    let ks = chacha20::keystream(key, &n);
    let mut i = 0;
    while i < buf.len() {
        buf[i] ^= ks[i];
        i += 1;
    }
    unsafe {
        chacha20::KEYSTREAM_APPLIED += buf.len();
    }
}
impl AeadInPlace for XChaCha20Poly1305 {
    fn encrypt_in_place_detached(&self, nonce: &XNonce, aad: &[u8], buffer: &mut [u8]) -> Result<Tag, Error> {
        xor(&self.key, nonce, buffer);
        let t = tag_of(&self.key, nonce, aad, buffer);
        Ok(GenericArray::clone_from_slice(&t))
    }
    fn decrypt_in_place_detached(&self, nonce: &XNonce, aad: &[u8], buffer: &mut [u8], tag: &Tag) -> Result<(), Error> {
        let t = tag_of(&self.key, nonce, aad, buffer);
        let mut eq = true;
        let mut i = 0;
        while i < 16 {
            eq &= t[i] == tag[i];
            i += 1;
        }
        if !eq {
            return Err(Error);
        }
        xor(&self.key, nonce, buffer);
        Ok(())
    }
}
