//! MODEL of the subset of aws-lc-rs 1.14 used by paseto-v3-aws-lc.  Same ideal functions and the
//! same transcript layouts as the RustCrypto-side models (hmac, sha2, hkdf, pbkdf2, aes), so that
//! "both v3 backends issue the same primitive transcript" is checkable.  AES-256-CTR is modelled by
//! contract: a 128-bit big-endian counter (OpenSSL/aws-lc `aes-256-ctr`).
#![allow(non_camel_case_types, static_mut_refs)]
use vmodel::{oracle, Transcript};

pub mod error {
    #[derive(Debug, Clone, Copy, PartialEq, Eq)]
    pub struct Unspecified;
    impl core::fmt::Display for Unspecified {
        fn fmt(&self, f: &mut core::fmt::Formatter<'_>) -> core::fmt::Result {
            f.write_str("Unspecified")
        }
    }
    impl std::error::Error for Unspecified {}
}
use error::Unspecified;

pub mod constant_time {
    use super::Unspecified;
    pub fn verify_slices_are_equal(a: &[u8], b: &[u8]) -> Result<(), Unspecified> {
        if a.len() != b.len() {
            return Err(Unspecified);
        }
        let mut acc = 0u8;
        let mut i = 0;
        while i < a.len() {
            acc |= a[i] ^ b[i];
            i += 1;
        }
        if acc == 0 { Ok(()) } else { Err(Unspecified) }
    }
}

pub mod rand {
    use super::Unspecified;
    /// draw index at which `fill` fails (usize::MAX = never); number of draws so far
    pub static mut FAIL_AT: usize = usize::MAX;
    pub static mut DRAWS: usize = 0;
    pub static mut LAST: [u8; 64] = [0; 64];
    pub static mut ASSUME_48_IS_P384_SCALAR: bool = false;
    pub trait SecureRandom {
        fn fill(&self, dest: &mut [u8]) -> Result<(), Unspecified>;
    }
    pub struct SystemRandom;
    impl SystemRandom {
        pub fn new() -> Self {
            SystemRandom
        }
    }
    impl SecureRandom for SystemRandom {
        fn fill(&self, dest: &mut [u8]) -> Result<(), Unspecified> {
            unsafe {
                let d = DRAWS;
                DRAWS = d + 1;
                if d == FAIL_AT {
                    vmodel::RNG_FAILED = true;
                    return Err(Unspecified);
                }
                #[cfg(kani)]
                {
                    kani::assume(dest.len() <= 64);
                    let r: [u8; 64] = kani::any();
                    let n = dest.len();
                    if n == 48 && ASSUME_48_IS_P384_SCALAR {
                        kani::assume(aws_lc_sys::model::scalar_ok(&r[..48]));
                    }
                    dest.copy_from_slice(&r[..n]);
                    if d == 0 {
                        LAST = r;
                    }
                }
            }
            Ok(())
        }
    }
}

pub mod digest {
    use super::*;
    pub struct Algorithm(pub(crate) u8);
    pub static SHA384: Algorithm = Algorithm(48);
    #[derive(Clone)]
    pub struct Context {
        t: Transcript,
    }
    #[derive(Clone, Copy)]
    pub struct Digest {
        b: [u8; 48],
    }
    impl AsRef<[u8]> for Digest {
        fn as_ref(&self) -> &[u8] {
            &self.b
        }
    }
    impl Context {
        pub fn new(_alg: &'static Algorithm) -> Self {
            Context { t: Transcript::new() }
        }
        pub fn update(&mut self, d: &[u8]) {
            self.t.absorb(d)
        }
        pub fn finish(self) -> Digest {
            let o = oracle(vmodel::D_SHA384, &self.t);
            let mut b = [0u8; 48];
            b.copy_from_slice(&o[..48]);
            Digest { b }
        }
    }
}

pub mod hmac {
    use super::*;
    pub struct Algorithm(pub(crate) u8);
    pub static HMAC_SHA384: Algorithm = Algorithm(48);
    #[derive(Clone)]
    pub struct Key {
        k: Transcript,
    }
    impl Key {
        pub fn new(_alg: Algorithm2, key_value: &[u8]) -> Self {
            let mut k = Transcript::new();
            k.absorb(key_value);
            Key { k }
        }
    }
    /// `hmac::Key::new(HMAC_SHA384, ..)` takes the algorithm by value in aws-lc-rs
    pub type Algorithm2 = Algorithm;
    impl Clone for Algorithm {
        fn clone(&self) -> Self {
            Algorithm(self.0)
        }
    }
    impl Copy for Algorithm {}
    #[derive(Clone)]
    pub struct Context {
        k: Transcript,
        t: Transcript,
    }
    #[derive(Clone, Copy)]
    pub struct Tag {
        b: [u8; 48],
    }
    impl AsRef<[u8]> for Tag {
        fn as_ref(&self) -> &[u8] {
            &self.b
        }
    }
    impl Context {
        pub fn with_key(key: &Key) -> Self {
            Context { k: key.k, t: Transcript::new() }
        }
        pub fn update(&mut self, d: &[u8]) {
            self.t.absorb(d)
        }
        pub fn sign(self) -> Tag {
            // same layout as the hmac model: [out_len, key_len] ‖ key ‖ data
            let mut t = Transcript::new();
            t.absorb(&[48, self.k.len as u8]);
            t.absorb(self.k.bytes());
            t.absorb(self.t.bytes());
            let o = oracle(vmodel::D_HMAC, &t);
            let mut b = [0u8; 48];
            b.copy_from_slice(&o[..48]);
            Tag { b }
        }
    }
}

pub mod hkdf {
    use super::*;
    pub struct Algorithm(pub(crate) u8);
    pub static HKDF_SHA384: Algorithm = Algorithm(48);
    impl Clone for Algorithm {
        fn clone(&self) -> Self {
            Algorithm(self.0)
        }
    }
    impl Copy for Algorithm {}
    pub trait KeyType {
        fn len(&self) -> usize;
    }
    pub struct Salt {
        s: Transcript,
    }
    pub struct Prk {
        base: Transcript,
    }
    pub struct Okm<'a, L: KeyType> {
        t: Transcript,
        len: L,
        _p: core::marker::PhantomData<&'a ()>,
    }
    impl Salt {
        pub fn new(_alg: Algorithm, value: &[u8]) -> Self {
            let mut s = Transcript::new();
            s.absorb(value);
            Salt { s }
        }
        pub fn extract(&self, secret: &[u8]) -> Prk {
            // same layout as the hkdf model: [salt_len, ikm_len] ‖ salt ‖ ikm
            let mut t = Transcript::new();
            t.absorb(&[self.s.len as u8, secret.len() as u8]);
            t.absorb(self.s.bytes());
            t.absorb(secret);
            Prk { base: t }
        }
    }
    impl Prk {
        pub fn expand<'a, L: KeyType>(&'a self, info: &'a [&'a [u8]], len: L) -> Result<Okm<'a, L>, Unspecified> {
            if len.len() > 255 * 48 {
                return Err(Unspecified);
            }
            let mut t = self.base;
            let mut i = 0;
            while i < info.len() {
                t.absorb(info[i]);
                i += 1;
            }
            t.absorb(&[len.len() as u8]);
            Ok(Okm { t, len, _p: core::marker::PhantomData })
        }
    }
    impl<'a, L: KeyType> Okm<'a, L> {
        pub fn fill(self, out: &mut [u8]) -> Result<(), Unspecified> {
            if out.len() != self.len.len() {
                return Err(Unspecified);
            }
            #[cfg(kani)]
            kani::assume(out.len() <= 64);
            let o = oracle(vmodel::D_HKDF, &self.t);
            let n = out.len();
            out.copy_from_slice(&o[..n]);
            Ok(())
        }
    }
}

pub mod pbkdf2 {
    use super::*;
    use core::num::NonZeroU32;
    pub struct Algorithm(pub(crate) u8);
    pub static PBKDF2_HMAC_SHA384: Algorithm = Algorithm(48);
    impl Clone for Algorithm {
        fn clone(&self) -> Self {
            Algorithm(self.0)
        }
    }
    impl Copy for Algorithm {}
    pub static mut LAST_ROUNDS: u32 = 0;
    pub fn derive(_alg: Algorithm, iterations: NonZeroU32, salt: &[u8], secret: &[u8], out: &mut [u8]) {
        vmodel::kdf_entry_guard();
        unsafe { LAST_ROUNDS = iterations.get() };
        // same layout as the pbkdf2 model
        let mut t = Transcript::new();
        t.absorb(&iterations.get().to_le_bytes());
        t.absorb(&[out.len() as u8, secret.len() as u8]);
        t.absorb(secret);
        t.absorb(salt);
        let o = oracle(vmodel::D_PBKDF2, &t);
        #[cfg(kani)]
        kani::assume(out.len() <= 64);
        let n = out.len();
        out.copy_from_slice(&o[..n]);
    }
}

pub mod iv {
    #[derive(Clone, Copy)]
    pub struct FixedLength<const L: usize>(pub(crate) [u8; L]);
    impl<const L: usize> From<&[u8; L]> for FixedLength<L> {
        fn from(v: &[u8; L]) -> Self {
            FixedLength(*v)
        }
    }
    impl<const L: usize> From<[u8; L]> for FixedLength<L> {
        fn from(v: [u8; L]) -> Self {
            FixedLength(v)
        }
    }
    impl<const L: usize> AsRef<[u8; L]> for FixedLength<L> {
        fn as_ref(&self) -> &[u8; L] {
            &self.0
        }
    }
}

pub mod cipher {
    use super::*;
    pub struct Algorithm(pub(crate) usize);
    pub static AES_256: Algorithm = Algorithm(32);
    pub static AES_128: Algorithm = Algorithm(16);
    pub struct UnboundCipherKey {
        key: [u8; 32],
    }
    impl UnboundCipherKey {
        pub fn new(alg: &'static Algorithm, key_bytes: &[u8]) -> Result<Self, Unspecified> {
            if key_bytes.len() != alg.0 || alg.0 != 32 {
                return Err(Unspecified);
            }
            let mut key = [0u8; 32];
            key.copy_from_slice(key_bytes);
            Ok(UnboundCipherKey { key })
        }
    }
    pub enum EncryptionContext {
        Iv128(super::iv::FixedLength<16>),
        None,
    }
    pub enum DecryptionContext {
        Iv128(super::iv::FixedLength<16>),
        None,
    }
    pub struct EncryptingKey {
        key: [u8; 32],
    }
    /// blocks fed to AES (same log as the `aes` model keeps), for the counter-width harnesses
    pub static mut BLOCKS: [[u8; 16]; 8] = [[0; 16]; 8];
    pub static mut NBLOCKS: usize = 0;
    impl EncryptingKey {
        pub fn ctr(key: UnboundCipherKey) -> Result<Self, Unspecified> {
            Ok(EncryptingKey { key: key.key })
        }
        pub fn less_safe_encrypt(&self, in_out: &mut [u8], context: EncryptionContext) -> Result<DecryptionContext, Unspecified> {
            let iv = match context {
                EncryptionContext::Iv128(iv) => iv,
                EncryptionContext::None => return Err(Unspecified),
            };
            // AES-256-CTR with a 128-bit big-endian counter (contract of aws-lc's aes-256-ctr)
            #[cfg(kani)]
            kani::assume(in_out.len() <= 64);
            let mut ctr = u128::from_be_bytes(iv.0);
            let mut off = 0;
            while off < in_out.len() {
                let block = ctr.to_be_bytes();
                unsafe {
                    let n = NBLOCKS;
                    if n < 8 {
                        BLOCKS[n] = block;
                    }
                    NBLOCKS = n + 1;
                }
                let o = oracle(vmodel::D_AES, &Transcript::of(&[&self.key, &block]));
                let mut i = 0;
                while i < 16 && off + i < in_out.len() {
                    in_out[off + i] ^= o[i];
                    i += 1;
                }
                ctr = ctr.wrapping_add(1);
                off += 16;
            }
            Ok(DecryptionContext::Iv128(iv))
        }
    }
}
