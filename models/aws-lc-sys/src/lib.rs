//! MODEL of the raw aws-lc FFI used by paseto-v3-aws-lc/src/lc (same names and signatures as the
//! bindgen bindings of aws-lc-sys 0.31, implemented in Rust over heap objects with an alloc/free
//! ledger):
//!   * every object records whether it was freed: use-after-free and double free are assertions; the
//!     harness asserts at the end that every allocated object was freed exactly once (no leaks);
//!   * BIGNUM: up to 48 big-endian bytes; BN_num_bytes = length without leading zero bytes;
//!     BN_bn2bin writes exactly that many bytes;
//!   * EC_POINT_oct2point accepts the one-byte `00` encoding as the point at infinity (as BoringSSL /
//!     aws-lc do), compressed 02/03‖x and uncompressed 04‖x‖y subject to an uninterpreted on-curve
//!     predicate; EC_POINT_point2oct returns 0 for the point at infinity;
//!   * EC_KEY_set_private_key requires 0 < d < n; EC_POINT_mul(d·G) = injective ideal function of d;
//!   * ECDSA_sign returns (r, s), each an arbitrary valid scalar in [1, n-1] (so leading zero bytes
//!     occur), ECDSA_verify accepts exactly that pair for (public key, digest);
//!   * ECDH_compute_key: commutative ideal function of the unordered pair of public points.
//! Signatures travel between ECDSA_sign / ECDSA_SIG_from_bytes / ECDSA_SIG_to_bytes / ECDSA_verify in
//! a private fixed-width encoding (r‖s, 96 bytes): DER canonicality is not modelled.
#![allow(non_camel_case_types, non_snake_case, static_mut_refs, clippy::missing_safety_doc)]
use std::os::raw::{c_int, c_uint, c_void};
use vmodel::{assume_predicate, oracle, predicate, Transcript, D_P384_DH, D_P384_PUB, D_P384_SIG, D_P384_VALID};

pub mod model {
    pub const ORDER: [u8; 48] = [
        0xff, 0xff, 0xff, 0xff, 0xff, 0xff, 0xff, 0xff, 0xff, 0xff, 0xff, 0xff, 0xff, 0xff, 0xff, 0xff, 0xff, 0xff, 0xff, 0xff, 0xff, 0xff, 0xff, 0xff, 0xc7, 0x63, 0x4d, 0x81,
        0xf4, 0x37, 0x2d, 0xdf, 0x58, 0x1a, 0x0d, 0xb2, 0x48, 0xb0, 0xa7, 0x7a, 0xec, 0xec, 0x19, 0x6a, 0xcc, 0xc5, 0x29, 0x73,
    ];
    pub fn scalar_ok(b: &[u8]) -> bool {
        if b.len() != 48 {
            return false;
        }
        let w = |x: &[u8], i: usize| u64::from_be_bytes([x[8 * i], x[8 * i + 1], x[8 * i + 2], x[8 * i + 3], x[8 * i + 4], x[8 * i + 5], x[8 * i + 6], x[8 * i + 7]]);
        let mut nonzero = false;
        let mut less = false;
        let mut decided = false;
        let mut i = 0;
        while i < 6 {
            let (x, n) = (w(b, i), w(&ORDER, i));
            nonzero |= x != 0;
            if !decided && x != n {
                less = x < n;
                decided = true;
            }
            i += 1;
        }
        nonzero && decided && less
    }
    /// ledger
    pub static mut ALLOCS: usize = 0;
    pub static mut FREES: usize = 0;
    pub fn live_objects() -> usize {
        unsafe { ALLOCS - FREES }
    }
}
use model::*;

#[repr(u32)]
#[derive(Debug, Copy, Clone, Hash, PartialEq, Eq)]
pub enum point_conversion_form_t {
    POINT_CONVERSION_COMPRESSED = 2,
    POINT_CONVERSION_UNCOMPRESSED = 4,
    POINT_CONVERSION_HYBRID = 6,
}

pub struct BN_CTX;
pub struct BIGNUM {
    /// the low 384 bits, big-endian
    v: [u8; 48],
    /// the number does not fit 384 bits (some higher byte of the input was non-zero)
    wide: bool,
    freed: bool,
    owned_by_parent: bool,
}
pub struct EC_GROUP {
    _x: u8,
}
#[derive(Clone, Copy)]
pub struct EC_POINT {
    infinity: bool,
    c: [u8; 49],
    freed: bool,
    owned_by_parent: bool,
}
pub struct EC_KEY {
    group: bool,
    has_priv: bool,
    priv_: BIGNUM,
    has_pub: bool,
    pub_: EC_POINT,
    freed: bool,
}
pub struct ECDSA_SIG {
    r: *mut BIGNUM,
    s: *mut BIGNUM,
    freed: bool,
}
pub struct HeapBytes {
    b: [u8; 104],
    freed: bool,
}

static GROUP: EC_GROUP = EC_GROUP { _x: 0 };

fn alloc<T>(v: T) -> *mut T {
    unsafe { ALLOCS += 1 };
    Box::into_raw(Box::new(v))
}
fn release() {
    unsafe { FREES += 1 };
}

// ---------------------------------------------------------------- BIGNUM
pub unsafe fn BN_bin2bn(in_: *const u8, len: usize, ret: *mut BIGNUM) -> *mut BIGNUM {
    assert!(ret.is_null(), "model: BN_bin2bn is only used with ret == NULL");
    if len > 128 {
        // model bound: inputs longer than 128 bytes are outside the model
        #[cfg(kani)]
        kani::assume(false);
        return core::ptr::null_mut();
    }
    // big-endian, any length: leading zero bytes are dropped (as BN_bin2bn does); a non-zero byte
    // above the low 48 makes the number wider than 384 bits
    let mut v = [0u8; 48];
    let mut wide = false;
    let mut i = 0;
    while i < len {
        let b = *in_.add(i);
        let from_end = len - 1 - i;
        if from_end < 48 {
            v[47 - from_end] = b;
        } else {
            wide |= b != 0;
        }
        i += 1;
    }
    alloc(BIGNUM { v, wide, freed: false, owned_by_parent: false })
}
fn sig_bytes(v: &[u8; 48]) -> usize {
    let mut n = 48;
    let mut lead = true;
    let mut i = 0;
    while i < 48 {
        if lead && v[i] == 0 {
            n -= 1;
        } else {
            lead = false;
        }
        i += 1;
    }
    n
}
pub unsafe fn BN_num_bytes(bn: *const BIGNUM) -> c_uint {
    assert!(!bn.is_null() && !(*bn).freed, "BN_num_bytes on a null or freed BIGNUM");
    assert!(!(*bn).wide, "model: BN_num_bytes of a number wider than 384 bits is outside the model");
    sig_bytes(&(*bn).v) as c_uint
}
pub unsafe fn BN_bn2bin(in_: *const BIGNUM, out: *mut u8) -> usize {
    assert!(!in_.is_null() && !(*in_).freed, "BN_bn2bin on a null or freed BIGNUM");
    assert!(!(*in_).wide, "model: BN_bn2bin of a number wider than 384 bits is outside the model");
    let n = sig_bytes(&(*in_).v);
    // fixed trip count (n is symbolic: a `while i < n` loop would unroll to the unwind bound)
    let mut i = 0;
    while i < 48 {
        if i < n {
            *out.add(i) = (*in_).v[48 - n + i];
        }
        i += 1;
    }
    n
}
pub unsafe fn BN_free(bn: *mut BIGNUM) {
    if bn.is_null() {
        return;
    }
    assert!(!(*bn).freed, "double free of a BIGNUM");
    assert!(!(*bn).owned_by_parent, "BN_free on a BIGNUM owned by another object (get0)");
    (*bn).freed = true;
    release();
}

// ---------------------------------------------------------------- group / point
pub unsafe fn EC_group_p384() -> *const EC_GROUP {
    &GROUP
}
pub unsafe fn EC_GROUP_free(_group: *mut EC_GROUP) {}
pub unsafe fn EC_POINT_new(group: *const EC_GROUP) -> *mut EC_POINT {
    assert!(!group.is_null());
    alloc(EC_POINT { infinity: true, c: [0; 49], freed: false, owned_by_parent: false })
}
pub unsafe fn EC_POINT_free(point: *mut EC_POINT) {
    if point.is_null() {
        return;
    }
    assert!(!(*point).freed, "double free of an EC_POINT");
    assert!(!(*point).owned_by_parent, "EC_POINT_free on a point owned by an EC_KEY (get0)");
    (*point).freed = true;
    release();
}
fn public_of(d: &[u8; 48]) -> [u8; 49] {
    // same ideal function as the p384 model (sibling agreement)
    let o = oracle(D_P384_PUB, &Transcript::of(&[d]));
    let mut p = [0u8; 49];
    p[0] = 2 + (o[48] & 1);
    p[1..].copy_from_slice(&o[..48]);
    assume_predicate(D_P384_VALID, &Transcript::of(&[&p]));
    p
}
pub unsafe fn EC_POINT_mul(group: *const EC_GROUP, r: *mut EC_POINT, n: *const BIGNUM, q: *const EC_POINT, m: *const BIGNUM, _ctx: *mut BN_CTX) -> c_int {
    assert!(!group.is_null() && !r.is_null() && !(*r).freed && !n.is_null() && !(*n).freed);
    assert!(q.is_null() && m.is_null(), "model: only n*G is used");
    let mut zero = true;
    let mut i = 0;
    while i < 48 {
        zero &= (*n).v[i] == 0;
        i += 1;
    }
    // the ideal function is queried on every path (its result is ignored for the zero scalar): a
    // path-dependent number of oracle queries would make the oracle's table length symbolic
    let c = public_of(&(*n).v);
    let zero = zero && !(*n).wide;
    (*r).infinity = zero;
    if !zero {
        (*r).c = c;
    }
    1
}
pub unsafe fn EC_POINT_oct2point(group: *const EC_GROUP, point: *mut EC_POINT, buf: *const u8, len: usize, _ctx: *mut BN_CTX) -> c_int {
    assert!(!group.is_null() && !point.is_null() && !(*point).freed);
    if len == 0 {
        return 0;
    }
    let tag = *buf;
    if len == 1 {
        if tag == 0 {
            // BoringSSL/aws-lc ec_GFp_simple_oct2point: a single zero byte is the point at infinity
            (*point).infinity = true;
            return 1;
        }
        return 0;
    }
    let mut c = [0u8; 49];
    if len == 49 && (tag == 2 || tag == 3) {
        let mut i = 0;
        while i < 49 {
            c[i] = *buf.add(i);
            i += 1;
        }
    } else if len == 97 && tag == 4 {
        c[0] = 2 + (*buf.add(96) & 1);
        let mut i = 1;
        while i < 49 {
            c[i] = *buf.add(i);
            i += 1;
        }
    } else {
        return 0;
    }
    if !predicate(D_P384_VALID, &Transcript::of(&[&c])) {
        return 0;
    }
    (*point).infinity = false;
    (*point).c = c;
    1
}
pub unsafe fn EC_POINT_point2oct(group: *const EC_GROUP, point: *const EC_POINT, form: point_conversion_form_t, buf: *mut u8, len: usize, _ctx: *mut BN_CTX) -> usize {
    assert!(!group.is_null() && !point.is_null() && !(*point).freed, "EC_POINT_point2oct on a null or freed point");
    if (*point).infinity {
        // EC_R_POINT_AT_INFINITY
        return 0;
    }
    assert!(form == point_conversion_form_t::POINT_CONVERSION_COMPRESSED, "model: only the compressed form is used");
    if buf.is_null() {
        return 49;
    }
    if len < 49 {
        return 0;
    }
    let mut i = 0;
    while i < 49 {
        *buf.add(i) = (*point).c[i];
        i += 1;
    }
    49
}

// ---------------------------------------------------------------- EC_KEY
pub unsafe fn EC_KEY_new() -> *mut EC_KEY {
    alloc(EC_KEY {
        group: false,
        has_priv: false,
        priv_: BIGNUM { v: [0; 48], wide: false, freed: false, owned_by_parent: true },
        has_pub: false,
        pub_: EC_POINT { infinity: true, c: [0; 49], freed: false, owned_by_parent: true },
        freed: false,
    })
}
pub unsafe fn EC_KEY_free(key: *mut EC_KEY) {
    if key.is_null() {
        return;
    }
    assert!(!(*key).freed, "double free of an EC_KEY");
    (*key).freed = true;
    (*key).priv_.freed = true;
    (*key).pub_.freed = true;
    release();
}
pub unsafe fn EC_KEY_set_group(key: *mut EC_KEY, group: *const EC_GROUP) -> c_int {
    assert!(!key.is_null() && !(*key).freed && !group.is_null());
    (*key).group = true;
    1
}
pub unsafe fn EC_KEY_set_private_key(key: *mut EC_KEY, priv_: *const BIGNUM) -> c_int {
    assert!(!key.is_null() && !(*key).freed && !priv_.is_null() && !(*priv_).freed);
    if !(*key).group {
        return 0;
    }
    if (*priv_).wide || !scalar_ok(&(*priv_).v) {
        // EC_R_INVALID_PRIVATE_KEY
        return 0;
    }
    (*key).priv_.v = (*priv_).v;
    (*key).has_priv = true;
    1
}
pub unsafe fn EC_KEY_set_public_key(key: *mut EC_KEY, pub_: *const EC_POINT) -> c_int {
    assert!(!key.is_null() && !(*key).freed && !pub_.is_null() && !(*pub_).freed);
    if !(*key).group {
        return 0;
    }
    (*key).pub_.infinity = (*pub_).infinity;
    (*key).pub_.c = (*pub_).c;
    (*key).has_pub = true;
    1
}
pub unsafe fn EC_KEY_get0_private_key(key: *const EC_KEY) -> *const BIGNUM {
    assert!(!key.is_null() && !(*key).freed, "EC_KEY used after free");
    if (*key).has_priv { &(*key).priv_ } else { core::ptr::null() }
}
pub unsafe fn EC_KEY_get0_public_key(key: *const EC_KEY) -> *const EC_POINT {
    assert!(!key.is_null() && !(*key).freed, "EC_KEY used after free");
    if (*key).has_pub { &(*key).pub_ } else { core::ptr::null() }
}

// ---------------------------------------------------------------- ECDSA
fn sig_of(pk: &[u8; 49], digest: &[u8]) -> [u8; 96] {
    // same ideal function / transcript layout as the p384 model
    let mut t1 = Transcript::new();
    t1.absorb(pk);
    t1.absorb(&[0]);
    t1.absorb(digest);
    let mut t2 = Transcript::new();
    t2.absorb(pk);
    t2.absorb(&[1]);
    t2.absorb(digest);
    let r = oracle(D_P384_SIG, &t1);
    let s = oracle(D_P384_SIG, &t2);
    let mut b = [0u8; 96];
    b[..48].copy_from_slice(&r[..48]);
    b[48..].copy_from_slice(&s[..48]);
    #[cfg(kani)]
    {
        let mut t = [0u8; 48];
        let mut i = 0;
        while i < 48 {
            t[i] = !b[48 + i];
            i += 1;
        }
        kani::assume(scalar_ok(&b[..48]) && scalar_ok(&b[48..]) && scalar_ok(&t));
    }
    b
}
pub unsafe fn ECDSA_size(key: *const EC_KEY) -> usize {
    assert!(!key.is_null() && !(*key).freed);
    // constant on purpose: the caller returns early on a different value, BEFORE ECDSA_sign queries the
    // ideal signature function; a result read through the key pointer is symbolic to CBMC (the pointer
    // is an if-then-else over the Ok/Err variants of earlier Results) and would make the number of
    // oracle queries path-dependent.  Keys without a group are outside the model (asserted).
    assert!((*key).group, "model: ECDSA_size on a key without a group");
    104
}
pub unsafe fn ECDSA_sign(_type: c_int, digest: *const u8, digest_len: usize, sig: *mut u8, sig_len: *mut c_uint, key: *const EC_KEY) -> c_int {
    assert!(!key.is_null() && !(*key).freed && !sig.is_null() && !sig_len.is_null());
    let d = core::slice::from_raw_parts(digest, digest_len);
    let b = sig_of(&(*key).pub_.c, d);
    if !(*key).has_priv || !(*key).has_pub || (*key).pub_.infinity {
        return 0;
    }
    let mut i = 0;
    while i < 96 {
        *sig.add(i) = b[i];
        i += 1;
    }
    *sig_len = 96;
    1
}
pub unsafe fn ECDSA_verify(_type: c_int, digest: *const u8, digest_len: usize, sig: *const u8, sig_len: usize, key: *const EC_KEY) -> c_int {
    assert!(!key.is_null() && !(*key).freed && !sig.is_null());
    let d = core::slice::from_raw_parts(digest, digest_len);
    let want = sig_of(&(*key).pub_.c, d);
    if sig_len != 96 || !(*key).has_pub || (*key).pub_.infinity {
        return 0;
    }
    // accepts the ideal signature and its (r, n - s) twin (same stand-in as the p384 model: the
    // bitwise complement of the s half)
    let mut eq = true;
    let mut eq2 = true;
    let mut i = 0;
    while i < 96 {
        let w = want[i];
        let w2 = if i >= 48 { !w } else { w };
        eq &= w == *sig.add(i);
        eq2 &= w2 == *sig.add(i);
        i += 1;
    }
    if eq || eq2 { 1 } else { 0 }
}
pub unsafe fn ECDSA_SIG_new() -> *mut ECDSA_SIG {
    alloc(ECDSA_SIG { r: core::ptr::null_mut(), s: core::ptr::null_mut(), freed: false })
}
pub unsafe fn ECDSA_SIG_free(sig: *mut ECDSA_SIG) {
    if sig.is_null() {
        return;
    }
    assert!(!(*sig).freed, "double free of an ECDSA_SIG");
    (*sig).freed = true;
    BN_free((*sig).r);
    BN_free((*sig).s);
    release();
}
pub unsafe fn ECDSA_SIG_set0(sig: *mut ECDSA_SIG, r: *mut BIGNUM, s: *mut BIGNUM) -> c_int {
    assert!(!sig.is_null() && !(*sig).freed);
    if r.is_null() || s.is_null() {
        return 0;
    }
    assert!(!(*r).freed && !(*s).freed);
    BN_free((*sig).r);
    BN_free((*sig).s);
    (*sig).r = r;
    (*sig).s = s;
    1
}
pub unsafe fn ECDSA_SIG_get0(sig: *const ECDSA_SIG, out_r: *mut *const BIGNUM, out_s: *mut *const BIGNUM) {
    assert!(!sig.is_null() && !(*sig).freed, "ECDSA_SIG used after free");
    if !out_r.is_null() {
        *out_r = (*sig).r;
    }
    if !out_s.is_null() {
        *out_s = (*sig).s;
    }
}
pub unsafe fn ECDSA_SIG_from_bytes(in_: *const u8, in_len: usize) -> *mut ECDSA_SIG {
    if in_len != 96 {
        return core::ptr::null_mut();
    }
    let r = BN_bin2bn(in_, 48, core::ptr::null_mut());
    let s = BN_bin2bn(in_.add(48), 48, core::ptr::null_mut());
    alloc(ECDSA_SIG { r, s, freed: false })
}
pub unsafe fn ECDSA_SIG_to_bytes(out_bytes: *mut *mut u8, out_len: *mut usize, sig: *const ECDSA_SIG) -> c_int {
    assert!(!sig.is_null() && !(*sig).freed && !out_bytes.is_null() && !out_len.is_null());
    if (*sig).r.is_null() || (*sig).s.is_null() {
        return 0;
    }
    let h = alloc(HeapBytes { b: [0; 104], freed: false });
    (&mut (*h).b)[..48].copy_from_slice(&(*(*sig).r).v);
    (&mut (*h).b)[48..96].copy_from_slice(&(*(*sig).s).v);
    *out_bytes = h as *mut u8;
    *out_len = 96;
    1
}
pub unsafe fn OPENSSL_free(ptr: *mut c_void) {
    if ptr.is_null() {
        return;
    }
    let h = ptr as *mut HeapBytes;
    assert!(!(*h).freed, "double OPENSSL_free");
    (*h).freed = true;
    release();
}

// ---------------------------------------------------------------- ECDH
pub unsafe fn ECDH_compute_key(
    out: *mut c_void,
    outlen: usize,
    pub_key: *const EC_POINT,
    priv_key: *const EC_KEY,
    kdf: Option<unsafe extern "C" fn(in_: *const c_void, inlen: usize, out: *mut c_void, outlen: *mut usize) -> *mut c_void>,
) -> c_int {
    assert!(kdf.is_none() && !pub_key.is_null() && !(*pub_key).freed && !priv_key.is_null() && !(*priv_key).freed);
    let a = public_of(&(*priv_key).priv_.v);
    let p = (*pub_key).c;
    let mut a_first = true;
    let mut decided = false;
    let mut i = 0;
    while i < 49 {
        if !decided && a[i] != p[i] {
            a_first = a[i] < p[i];
            decided = true;
        }
        i += 1;
    }
    let t = if a_first { Transcript::of(&[&a, &p]) } else { Transcript::of(&[&p, &a]) };
    let o = oracle(D_P384_DH, &t);
    if (*pub_key).infinity || !(*priv_key).has_priv || outlen < 48 {
        return -1;
    }
    let dst = out as *mut u8;
    let mut i = 0;
    while i < 48 {
        *dst.add(i) = o[i];
        i += 1;
    }
    48
}
