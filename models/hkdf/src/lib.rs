//! MODEL of hkdf 0.12: output = ideal function of (salt, ikm, info, output length); errors only
//! above 255 * hash length (255*48 for SHA-384, the only instantiation used).
#![no_std]
use core::marker::PhantomData;
use vmodel::{oracle, Transcript, D_HKDF};

#[derive(Debug, Clone, Copy, PartialEq, Eq)]
pub struct InvalidLength;
impl core::fmt::Display for InvalidLength {
    fn fmt(&self, f: &mut core::fmt::Formatter<'_>) -> core::fmt::Result {
        f.write_str("invalid length")
    }
}
#[derive(Debug, Clone, Copy, PartialEq, Eq)]
pub struct InvalidPrkLength;

pub struct Hkdf<H> {
    base: Transcript,
    _h: PhantomData<H>,
}
/// (salt present, salt length, info length) of the most recent expand call, for conformance harnesses
pub static mut LAST_EXPAND: (bool, usize, usize, usize) = (false, 0, 0, 0);
impl<H> Hkdf<H> {
    pub fn new(salt: Option<&[u8]>, ikm: &[u8]) -> Self {
        let mut t = Transcript::new();
        // HKDF-Extract treats an absent salt as a string of HashLen zeros; an absent and an empty
        // salt are the same function
        let s: &[u8] = match salt {
            Some(s) => s,
            None => &[],
        };
        t.absorb(&[s.len() as u8, ikm.len() as u8]);
        t.absorb(s);
        t.absorb(ikm);
        unsafe { LAST_EXPAND.0 = salt.is_some(); LAST_EXPAND.1 = s.len(); }
        Hkdf { base: t, _h: PhantomData }
    }
    pub fn expand_multi_info(&self, infos: &[&[u8]], okm: &mut [u8]) -> Result<(), InvalidLength> {
        if okm.len() > 255 * 48 {
            return Err(InvalidLength);
        }
        let mut t = self.base;
        let mut il = 0;
        let mut i = 0;
        while i < infos.len() {
            t.absorb(infos[i]);
            il += infos[i].len();
            i += 1;
        }
        t.absorb(&[okm.len() as u8]);
        unsafe { LAST_EXPAND.2 = il; LAST_EXPAND.3 = okm.len(); }
        #[cfg(kani)]
        kani::assume(okm.len() <= 64);
        let o = oracle(D_HKDF, &t);
        let n = okm.len();
        okm.copy_from_slice(&o[..n]);
        Ok(())
    }
    pub fn expand(&self, info: &[u8], okm: &mut [u8]) -> Result<(), InvalidLength> {
        self.expand_multi_info(&[info], okm)
    }
}
