//! Unit harnesses over the real paseto-core sources.
//! `gen/base64_unit.rs` is produced at check time: the current /repo/paseto-core/src/base64.rs
//! followed by proofs/base64_proofs.rs (so the private functions are the repository's own tokens).
#![allow(dead_code, unused_imports, internal_features, static_mut_refs, unused_variables, unused_mut)]
#![feature(formatting_options)]
#[macro_use]
extern crate alloc;
pub use paseto_core::PasetoError;

#[path = "../gen/base64_unit.rs"]
mod base64;

pub mod oracle;
pub mod l3;
#[cfg(kani)]
mod api;
#[cfg(kani)]
mod pae;
#[cfg(kani)]
mod validation;
#[cfg(kani)]
mod tokens;
