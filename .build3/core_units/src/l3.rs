//! L3: an *arbitrary backend*.  `AV` implements every paseto-core backend trait with
//! nondeterministic results (Ok or any error, arbitrary bytes) and records what it was called with,
//! so the solver ranges over every possible backend behaviour while the generic token / PASERK layer
//! of paseto-core (tokens.rs, encodings.rs, paserk/*.rs, key.rs) is executed as is.
#![cfg(kani)]
use alloc::boxed::Box;
use alloc::vec::Vec;
use core::error::Error;
use core::fmt;

use paseto_core::PasetoError;
use paseto_core::encodings::{Footer, Payload, WriteBytes};
use paseto_core::key::{HasKey, KeyType};
use paseto_core::paserk::{IdVersion, PieWrapVersion, PkeSealingVersion, PkeUnsealingVersion, PwWrapVersion};
use paseto_core::validation::Validate;
use paseto_core::version::{Local, PkePublic, PkeSecret, Public, Purpose, SealingVersion, Secret, UnsealingVersion, Version};

pub const CAP: usize = 16;

#[derive(Clone, Copy)]
pub struct Buf {
    pub b: [u8; CAP],
    pub len: usize,
}
impl Buf {
    pub const fn new() -> Self {
        Buf { b: [0; CAP], len: 0 }
    }
    pub fn from(s: &[u8]) -> Self {
        kani::assume(s.len() <= CAP);
        let mut r = Buf::new();
        let mut i = 0;
        while i < s.len() {
            r.b[i] = s[i];
            i += 1;
        }
        r.len = s.len();
        r
    }
    pub fn eq_slice(&self, s: &[u8]) -> bool {
        if self.len != s.len() {
            return false;
        }
        let mut i = 0;
        let mut eq = true;
        while i < s.len() {
            eq &= self.b[i] == s[i];
            i += 1;
        }
        eq
    }
}

#[derive(Clone, Copy)]
pub struct Log {
    pub seq: u32,
    pub unseal_calls: u32,
    pub unseal_seq: u32,
    pub unseal_payload: Buf,
    pub unseal_footer: Buf,
    pub unseal_aad: Buf,
    pub unseal_enc_len: usize,
    pub unseal_ok: bool,
    pub unseal_err: u8,
    pub unseal_out_ptr: *const u8,
    pub unseal_out_len: usize,
    pub seal_calls: u32,
    pub seal_payload: Buf,
    pub seal_footer: Buf,
    pub seal_aad: Buf,
    pub seal_enc_len: usize,
    pub seal_ok: bool,
    pub seal_err: u8,
    pub seal_out: Buf,
    pub nonce_calls: u32,
    pub nonce_ok: bool,
    pub nonce_err: u8,
    pub nonce: Buf,
    pub decode_calls: u32,
    pub decode_seq: u32,
    pub decode_ptr: *const u8,
    pub decode_len: usize,
    pub decode_ok: bool,
    pub decode_id: u8,
    pub validate_calls: u32,
    pub validate_seq: u32,
    pub validate_id: u8,
    pub validate_ok: bool,
    pub validate_err: u8,
    pub encode_calls: u32,
    pub encode_ok: bool,
    pub encoded: Buf,
    pub key_decode_calls: u32,
    pub key_decode_in: Buf,
    pub key_decode_ok: bool,
}

pub static mut LOG: Log = Log {
    seq: 0,
    unseal_calls: 0,
    unseal_seq: 0,
    unseal_payload: Buf::new(),
    unseal_footer: Buf::new(),
    unseal_aad: Buf::new(),
    unseal_enc_len: 0,
    unseal_ok: false,
    unseal_err: 0,
    unseal_out_ptr: core::ptr::null(),
    unseal_out_len: 0,
    seal_calls: 0,
    seal_payload: Buf::new(),
    seal_footer: Buf::new(),
    seal_aad: Buf::new(),
    seal_enc_len: 0,
    seal_ok: false,
    seal_err: 0,
    seal_out: Buf::new(),
    nonce_calls: 0,
    nonce_ok: false,
    nonce_err: 0,
    nonce: Buf::new(),
    decode_calls: 0,
    decode_seq: 0,
    decode_ptr: core::ptr::null(),
    decode_len: 0,
    decode_ok: false,
    decode_id: 0,
    validate_calls: 0,
    validate_seq: 0,
    validate_id: 0,
    validate_ok: false,
    validate_err: 0,
    encode_calls: 0,
    encode_ok: false,
    encoded: Buf::new(),
    key_decode_calls: 0,
    key_decode_in: Buf::new(),
    key_decode_ok: false,
};

/// Sizes the arbitrary backend uses for the values it invents (concrete per harness).
pub static mut NONCE_LEN: usize = 0;
pub static mut SEAL_OUT_LEN: usize = 0;
pub static mut ENC_LEN: usize = 0;

fn next_seq() -> u32 {
    unsafe {
        LOG.seq += 1;
        LOG.seq
    }
}

#[derive(Debug)]
pub struct AnErr;
impl fmt::Display for AnErr {
    fn fmt(&self, f: &mut fmt::Formatter<'_>) -> fmt::Result {
        f.write_str("AnErr")
    }
}
impl Error for AnErr {}

pub fn err_of(k: u8) -> PasetoError {
    match k {
        0 => PasetoError::Base64DecodeError,
        1 => PasetoError::InvalidKey,
        2 => PasetoError::InvalidToken,
        3 => PasetoError::CryptoError,
        4 => PasetoError::ClaimsError,
        _ => PasetoError::PayloadError(Box::new(AnErr)),
    }
}
pub fn err_kind(e: &PasetoError) -> u8 {
    match e {
        PasetoError::Base64DecodeError => 0,
        PasetoError::InvalidKey => 1,
        PasetoError::InvalidToken => 2,
        PasetoError::CryptoError => 3,
        PasetoError::ClaimsError => 4,
        PasetoError::PayloadError(_) => 5,
        _ => 6,
    }
}
pub fn any_err_kind() -> u8 {
    let k: u8 = kani::any();
    kani::assume(k <= 5);
    k
}

pub fn any_vec(n: usize) -> Vec<u8> {
    kani::assume(n <= CAP);
    let r: [u8; CAP] = kani::any();
    let mut v = Vec::with_capacity(CAP);
    let mut i = 0;
    while i < n {
        v.push(r[i]);
        i += 1;
    }
    v
}

pub struct AV;
impl Version for AV {
    const HEADER: &'static str = "v4";
    const PASERK_HEADER: &'static str = "k4";
}
/// second version, same code, other headers ("k3" is the trait's default PASERK header)
pub struct AV3;
impl Version for AV3 {
    const HEADER: &'static str = "v3";
}

#[derive(Clone)]
pub struct AK(pub [u8; 4]);

macro_rules! has_key {
    ($v:ty, $k:ty) => {
        impl HasKey<$k> for $v {
            type Key = AK;
            fn encode(key: &AK) -> Box<[u8]> {
                key.0.to_vec().into_boxed_slice()
            }
            fn decode(bytes: &[u8]) -> Result<AK, PasetoError> {
                let ok: bool = kani::any();
                unsafe {
                    LOG.key_decode_calls += 1;
                    if bytes.len() <= CAP {
                        LOG.key_decode_in = Buf::from(bytes);
                    }
                    LOG.key_decode_ok = ok;
                }
                if ok { Ok(AK(kani::any())) } else { Err(err_of(any_err_kind())) }
            }
        }
    };
}
has_key!(AV, Local);
has_key!(AV, Public);
has_key!(AV, Secret);
has_key!(AV, PkePublic);
has_key!(AV, PkeSecret);
has_key!(AV3, Local);
has_key!(AV3, Public);
has_key!(AV3, Secret);

macro_rules! sealing {
    ($v:ty, $p:ty, $sk:ty) => {
        impl UnsealingVersion<$p> for $v {
            fn unseal<'a>(_key: &AK, encoding: &'static str, payload: &'a mut [u8], footer: &[u8], aad: &[u8]) -> Result<&'a [u8], PasetoError> {
                let ok: bool = kani::any();
                let ek = any_err_kind();
                unsafe {
                    LOG.unseal_calls += 1;
                    LOG.unseal_seq = next_seq();
                    LOG.unseal_payload = Buf::from(payload);
                    LOG.unseal_footer = Buf::from(footer);
                    LOG.unseal_aad = Buf::from(aad);
                    LOG.unseal_enc_len = encoding.len();
                    LOG.unseal_ok = ok;
                    LOG.unseal_err = ek;
                }
                if !ok {
                    return Err(err_of(ek));
                }
                // a backend may rewrite the buffer in place and return any sub-slice of it
                let scr: [u8; CAP] = kani::any();
                let mut i = 0;
                while i < payload.len() {
                    payload[i] = scr[i];
                    i += 1;
                }
                let a: usize = kani::any();
                let b: usize = kani::any();
                kani::assume(a <= b && b <= payload.len());
                let out = &payload[a..b];
                unsafe {
                    LOG.unseal_out_ptr = out.as_ptr();
                    LOG.unseal_out_len = out.len();
                }
                Ok(out)
            }
        }
        impl SealingVersion<$p> for $v {
            fn unsealing_key(key: &AK) -> AK {
                AK(key.0)
            }
            fn random() -> Result<AK, PasetoError> {
                if kani::any() { Ok(AK(kani::any())) } else { Err(err_of(any_err_kind())) }
            }
            fn nonce() -> Result<Vec<u8>, PasetoError> {
                let ok: bool = kani::any();
                let ek = any_err_kind();
                unsafe {
                    LOG.nonce_calls += 1;
                    LOG.nonce_ok = ok;
                    LOG.nonce_err = ek;
                }
                if !ok {
                    return Err(err_of(ek));
                }
                let v = any_vec(unsafe { NONCE_LEN });
                unsafe {
                    LOG.nonce = Buf::from(&v);
                }
                Ok(v)
            }
            fn dangerous_seal_with_nonce(_key: &AK, encoding: &'static str, payload: Vec<u8>, footer: &[u8], aad: &[u8]) -> Result<Vec<u8>, PasetoError> {
                let ok: bool = kani::any();
                let ek = any_err_kind();
                unsafe {
                    LOG.seal_calls += 1;
                    LOG.seal_payload = Buf::from(&payload);
                    LOG.seal_footer = Buf::from(footer);
                    LOG.seal_aad = Buf::from(aad);
                    LOG.seal_enc_len = encoding.len();
                    LOG.seal_ok = ok;
                    LOG.seal_err = ek;
                }
                core::mem::forget(payload);
                if !ok {
                    return Err(err_of(ek));
                }
                let v = any_vec(unsafe { SEAL_OUT_LEN });
                unsafe {
                    LOG.seal_out = Buf::from(&v);
                }
                Ok(v)
            }
        }
    };
}
sealing!(AV, Local, Local);
sealing!(AV, Public, Secret);
sealing!(AV3, Local, Local);

/// what `AV::hash_key` was last called with, and what it returned
pub static mut ID_HEADER_SEEN: &str = "";
pub static mut ID_DATA_SEEN: [u8; 32] = [0; 32];
pub static mut ID_DATA_LEN: usize = 0;
pub static mut ID_RETURNED: [u8; 33] = [0; 33];
pub static mut ID_CALLS: u32 = 0;
impl IdVersion for AV {
    fn hash_key(key_header: &'static str, key_data: &[u8]) -> [u8; 33] {
        let r: [u8; 33] = kani::any();
        unsafe {
            ID_CALLS += 1;
            ID_HEADER_SEEN = key_header;
            kani::assume(key_data.len() <= 32);
            let mut i = 0;
            while i < key_data.len() {
                ID_DATA_SEEN[i] = key_data[i];
                i += 1;
            }
            ID_DATA_LEN = key_data.len();
            ID_RETURNED = r;
        }
        r
    }
}

impl PieWrapVersion for AV {
    fn pie_wrap_key(_h: &'static str, _k: &AK, _d: Vec<u8>) -> Result<Vec<u8>, PasetoError> {
        if kani::any() { Ok(any_vec(unsafe { SEAL_OUT_LEN })) } else { Err(err_of(any_err_kind())) }
    }
    fn pie_unwrap_key<'key>(_h: &'static str, _k: &AK, d: &'key mut [u8]) -> Result<&'key [u8], PasetoError> {
        if kani::any() { Ok(d) } else { Err(err_of(any_err_kind())) }
    }
}

#[derive(Default)]
pub struct AParams(pub u8);
impl PwWrapVersion for AV {
    type Params = AParams;
    fn pw_wrap_key(_h: &'static str, _p: &[u8], _pp: &AParams, _d: Vec<u8>) -> Result<Vec<u8>, PasetoError> {
        if kani::any() { Ok(any_vec(unsafe { SEAL_OUT_LEN })) } else { Err(err_of(any_err_kind())) }
    }
    fn get_params(_d: &[u8]) -> Result<AParams, PasetoError> {
        if kani::any() { Ok(AParams(kani::any())) } else { Err(err_of(any_err_kind())) }
    }
    fn pw_unwrap_key<'key>(_h: &'static str, _p: &[u8], d: &'key mut [u8]) -> Result<&'key [u8], PasetoError> {
        if kani::any() { Ok(d) } else { Err(err_of(any_err_kind())) }
    }
}
impl PkeSealingVersion for AV {
    fn seal_key(_k: &AK, _key: AK) -> Result<Box<[u8]>, PasetoError> {
        if kani::any() { Ok(any_vec(unsafe { SEAL_OUT_LEN }).into_boxed_slice()) } else { Err(err_of(any_err_kind())) }
    }
}
impl PkeUnsealingVersion for AV {
    fn unseal_key(_k: &AK, d: Box<[u8]>) -> Result<AK, PasetoError> {
        core::mem::forget(d);
        if kani::any() { Ok(AK(kani::any())) } else { Err(err_of(any_err_kind())) }
    }
}

/// A payload whose codec is arbitrary and recorded.
pub struct Msg {
    pub id: u8,
}
impl Payload for Msg {
    const SUFFIX: &'static str = "";
    fn encode(self, mut writer: impl WriteBytes) -> Result<(), Box<dyn Error + Send + Sync>> {
        let ok: bool = kani::any();
        unsafe {
            LOG.encode_calls += 1;
            LOG.encode_ok = ok;
        }
        if !ok {
            return Err(Box::new(AnErr));
        }
        let v = any_vec(unsafe { ENC_LEN });
        unsafe {
            LOG.encoded = Buf::from(&v);
        }
        writer.write(&v);
        core::mem::forget(v);
        Ok(())
    }
    fn decode(payload: &[u8]) -> Result<Self, Box<dyn Error + Send + Sync>> {
        let ok: bool = kani::any();
        let id: u8 = kani::any();
        unsafe {
            LOG.decode_calls += 1;
            LOG.decode_seq = next_seq();
            LOG.decode_ptr = payload.as_ptr();
            LOG.decode_len = payload.len();
            LOG.decode_ok = ok;
            LOG.decode_id = id;
        }
        if ok { Ok(Msg { id }) } else { Err(Box::new(AnErr)) }
    }
}

/// A validator with a symbolic verdict, recorded.
pub struct AVal;
impl Validate for AVal {
    type Claims = Msg;
    fn validate(&self, claims: &Msg) -> Result<(), PasetoError> {
        let ok: bool = kani::any();
        let ek = any_err_kind();
        unsafe {
            LOG.validate_calls += 1;
            LOG.validate_seq = next_seq();
            LOG.validate_id = claims.id;
            LOG.validate_ok = ok;
            LOG.validate_err = ek;
        }
        if ok { Ok(()) } else { Err(err_of(ek)) }
    }
}
