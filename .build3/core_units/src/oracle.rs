//! Reference (spec) side used by the harnesses: RFC 4648 base64url, strict/canonical/unpadded.
use core::fmt;

pub fn is_alpha(b: u8) -> bool {
    (b >= b'A' && b <= b'Z') || (b >= b'a' && b <= b'z') || (b >= b'0' && b <= b'9') || b == b'-' || b == b'_'
}

pub fn ref_val(b: u8) -> i16 {
    if b >= b'A' && b <= b'Z' {
        (b - b'A') as i16
    } else if b >= b'a' && b <= b'z' {
        (b - b'a') as i16 + 26
    } else if b >= b'0' && b <= b'9' {
        (b - b'0') as i16 + 52
    } else if b == b'-' {
        62
    } else if b == b'_' {
        63
    } else {
        -1
    }
}

/// is `s` a strict canonical unpadded base64url string?
pub fn b64_valid(s: &[u8]) -> bool {
    let n = s.len();
    let mut all = true;
    let mut i = 0;
    while i < n {
        all &= is_alpha(s[i]);
        i += 1;
    }
    if !all {
        return false;
    }
    match n % 4 {
        0 => true,
        1 => false,
        2 => ref_val(s[n - 1]) & 0x0f == 0,
        _ => ref_val(s[n - 1]) & 0x03 == 0,
    }
}

/// byte k of the value a valid base64url string denotes
pub fn b64_byte(s: &[u8], k: usize) -> u8 {
    let bit = k * 8;
    let c = bit / 6;
    let off = bit % 6;
    let hi = ref_val(s[c]) as u32;
    let lo = ref_val(s[c + 1]) as u32;
    let w = (hi << 6) | lo;
    ((w >> (4 - off)) & 0xff) as u8
}

pub fn b64_len(n: usize) -> usize {
    n * 3 / 4
}

/// Fixed-buffer fmt sink: drives Display without String.
pub struct Sink<const C: usize> {
    pub buf: [u8; C],
    pub len: usize,
    pub overflow: bool,
}
impl<const C: usize> Sink<C> {
    pub fn new() -> Self {
        Sink { buf: [0; C], len: 0, overflow: false }
    }
    pub fn bytes(&self) -> &[u8] {
        &self.buf[..self.len]
    }
}
impl<const C: usize> fmt::Write for Sink<C> {
    fn write_str(&mut self, s: &str) -> fmt::Result {
        let b = s.as_bytes();
        if self.len + b.len() > C {
            self.overflow = true;
            return Err(fmt::Error);
        }
        let mut i = 0;
        while i < b.len() {
            self.buf[self.len + i] = b[i];
            i += 1;
        }
        self.len += b.len();
        Ok(())
    }
}

pub fn display_into<const C: usize, T: fmt::Display>(v: &T, sink: &mut Sink<C>) -> bool {
    let mut f = fmt::Formatter::new(sink, fmt::FormattingOptions::new());
    fmt::Display::fmt(v, &mut f).is_ok()
}

pub fn bytes_eq(a: &[u8], b: &[u8]) -> bool {
    if a.len() != b.len() {
        return false;
    }
    let mut i = 0;
    let mut eq = true;
    while i < a.len() {
        eq &= a[i] == b[i];
        i += 1;
    }
    eq
}

pub fn starts_with(s: &[u8], p: &[u8]) -> bool {
    if s.len() < p.len() {
        return false;
    }
    let mut i = 0;
    let mut eq = true;
    while i < p.len() {
        eq &= s[i] == p[i];
        i += 1;
    }
    eq
}

const ALPHABET: &[u8; 64] = b"ABCDEFGHIJKLMNOPQRSTUVWXYZabcdefghijklmnopqrstuvwxyz0123456789-_";

/// reference encoder (RFC 4648 §5, no padding); returns number of chars written
pub fn ref_encode(src: &[u8], dst: &mut [u8]) -> usize {
    let mut o = 0;
    let mut i = 0;
    while i + 3 <= src.len() {
        let w = ((src[i] as u32) << 16) | ((src[i + 1] as u32) << 8) | src[i + 2] as u32;
        dst[o] = ALPHABET[((w >> 18) & 63) as usize];
        dst[o + 1] = ALPHABET[((w >> 12) & 63) as usize];
        dst[o + 2] = ALPHABET[((w >> 6) & 63) as usize];
        dst[o + 3] = ALPHABET[(w & 63) as usize];
        o += 4;
        i += 3;
    }
    let rem = src.len() - i;
    if rem == 1 {
        let w = (src[i] as u32) << 16;
        dst[o] = ALPHABET[((w >> 18) & 63) as usize];
        dst[o + 1] = ALPHABET[((w >> 12) & 63) as usize];
        o += 2;
    } else if rem == 2 {
        let w = ((src[i] as u32) << 16) | ((src[i + 1] as u32) << 8);
        dst[o] = ALPHABET[((w >> 18) & 63) as usize];
        dst[o + 1] = ALPHABET[((w >> 12) & 63) as usize];
        dst[o + 2] = ALPHABET[((w >> 6) & 63) as usize];
        o += 3;
    }
    o
}

pub const fn enc_len(n: usize) -> usize {
    (n / 3) * 4 + if n % 3 == 0 { 0 } else { n % 3 + 1 }
}

/// position of the first '.' at or after `from`, or s.len()
pub fn find_dot(s: &[u8], from: usize) -> usize {
    let mut i = from;
    while i < s.len() {
        if s[i] == b'.' {
            return i;
        }
        i += 1;
    }
    s.len()
}

/// Sound concretisation of `core::slice::memchr::memchr` (used by `str::split_once('.')`):
/// the harness announces where the needle is (it constructed or constrained the string), the stub
/// *asserts* that the announcement is right and returns it as a concrete value, so that the lengths
/// of the two halves stay concrete for the symbolic execution.  A wrong hint fails the harness.
pub const NO_HIT: usize = usize::MAX;
pub static mut DOT_HINTS: [usize; 6] = [NO_HIT; 6];
pub static mut DOT_NEXT: usize = 0;
pub fn hint(hs: &[usize]) {
    unsafe {
        let mut i = 0;
        while i < hs.len() {
            DOT_HINTS[DOT_NEXT_SET + i] = hs[i];
            i += 1;
        }
        DOT_NEXT_SET += hs.len();
    }
}
pub static mut DOT_NEXT_SET: usize = 0;
pub fn memchr_hint(x: u8, text: &[u8]) -> Option<usize> {
    let h = unsafe {
        let i = DOT_NEXT;
        DOT_NEXT = i + 1;
        DOT_HINTS[i]
    };
    if h == NO_HIT {
        let mut k = 0;
        while k < text.len() {
            assert!(text[k] != x, "memchr hint wrong: needle present");
            k += 1;
        }
        None
    } else {
        assert!(h < text.len() && text[h] == x, "memchr hint wrong: needle not at hinted index");
        let mut k = 0;
        while k < h {
            assert!(text[k] != x, "memchr hint wrong: earlier occurrence");
            k += 1;
        }
        Some(h)
    }
}

/// Static-free variants of the memchr concretisation: one stub function per hinted position
/// (reading the hint from a `static mut` made CBMC raise spurious `__rust_dealloc` failures).
pub fn memchr_none(x: u8, text: &[u8]) -> Option<usize> {
    let mut k = 0;
    while k < text.len() {
        assert!(text[k] != x, "memchr hint wrong: needle present");
        k += 1;
    }
    None
}
macro_rules! memchr_at {
    ($($name:ident = $h:literal),*) => {$(
        pub fn $name(x: u8, text: &[u8]) -> Option<usize> {
            assert!($h < text.len() && text[$h] == x, "memchr hint wrong: needle not at hinted index");
            let mut k = 0;
            while k < $h {
                assert!(text[k] != x, "memchr hint wrong: earlier occurrence");
                k += 1;
            }
            Some($h)
        }
    )*};
}
memchr_at!(memchr_at0 = 0, memchr_at1 = 1, memchr_at2 = 2, memchr_at3 = 3, memchr_at4 = 4, memchr_at5 = 5, memchr_at6 = 6, memchr_at7 = 7, memchr_at8 = 8);
