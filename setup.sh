#!/bin/bash
# Builds the framework from files on disk only (offline): the native replay binary and the
# dependency layers of the harness crates (Kani target-base directories).
export CARGO_NET_OFFLINE=true
cd "$(dirname "$0")"
python3-vt - <<'PY'
import sys
sys.path.insert(0, "lib")
import kanirun, specs, replay
for fl in ("std", "rng"):
    try:
        replay.replay_bin(fl)
        print("replay binary (%s) built" % fl)
    except Exception as e:
        print("replay build (%s) failed:" % fl, e)
for name, h in (("core_units", "base64::proofs::l0_decoded_len"), ("json_units", "validators::has_expiry_exact"),
                ("v4", "proofs::local_rng_fail_closed_"), ("v3", "proofs::local_rng_fail_closed_"), ("v2", "proofs::local_rng_fail_closed_"),
                ("v3awslc", "proofs::local_rng_fail_closed_"), ("v4sodium", "proofs::local_nonce_is_draw_"), ("v1", "proofs::c13_id_transcript_lid")):
    g = specs.group(name)
    g.materialize()
    err = g.ensure_warm(h, ["-Z", "stubbing"] if g.stubbing else [])
    print(name, "warm", "FAILED" if err else "ok")
PY
exit 0
