#!/bin/bash
# Builds the framework from files on disk only (offline): the native replay binary and the
# dependency layers of the harness crates (Kani target-base directories).
export CARGO_NET_OFFLINE=true
cd "$(dirname "$0")"
python3-vt - <<'PY'
import sys
sys.path.insert(0, "lib")
import kanirun, specs, replay
try:
    replay.replay_bin()
    print("replay binary built")
except Exception as e:
    print("replay build failed:", e)
for name, h in (("core_units", "base64::proofs::l0_decoded_len"), ("json_units", "validators::has_expiry_exact"),
                ("v4", "proofs::local_rng_fail_closed_"), ("v3", "proofs::local_rng_fail_closed_"), ("v2", "proofs::local_rng_fail_closed_")):
    g = specs.group(name)
    g.materialize()
    err = g.ensure_warm(h, ["-Z", "stubbing"] if g.stubbing else [])
    print(name, "warm", "FAILED" if err else "ok")
PY
exit 0
