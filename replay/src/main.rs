//! Native replay of solver counterexamples against the REAL crates of /repo (real crypto).
//! usage: replay <recipe> < args.json      prints REPRODUCED / NOT-REPRODUCED (+ CONDITION tag)
use std::error::Error;
use std::io::Read;
use std::panic::{catch_unwind, AssertUnwindSafe};

use paseto_core::encodings::{Payload, WriteBytes};
use paseto_core::key::{HasKey, Key};
use paseto_core::paserk::{KeyText, PieWrapVersion, PkeSealingVersion, PkeUnsealingVersion, PwWrapVersion};
use paseto_core::tokens::{SealedToken, UnsealedToken};
use paseto_core::validation::NoValidation;
use paseto_core::version::{Local, PkePublic, PkeSecret, Public, SealingVersion, Secret};
use paseto_core::{LocalKey, SecretKey};
use serde_json::Value;

struct Raw(Vec<u8>);
impl Payload for Raw {
    const SUFFIX: &'static str = "";
    fn encode(self, mut w: impl WriteBytes) -> Result<(), Box<dyn Error + Send + Sync>> {
        w.write(&self.0);
        Ok(())
    }
    fn decode(p: &[u8]) -> Result<Self, Box<dyn Error + Send + Sync>> {
        Ok(Raw(p.to_vec()))
    }
}

fn bytes(v: &Value, k: &str) -> Vec<u8> {
    v.get(k).and_then(|x| x.as_array()).map(|a| a.iter().map(|b| b.as_u64().unwrap_or(0) as u8).collect()).unwrap_or_default()
}
fn num(v: &Value, k: &str, d: u64) -> u64 {
    v.get(k).and_then(|x| x.as_u64()).unwrap_or(d)
}
fn text<'a>(v: &'a Value, k: &str) -> &'a str {
    v.get(k).and_then(|x| x.as_str()).unwrap_or("")
}
fn take(b: &[u8], n: usize) -> Vec<u8> {
    b.iter().cloned().take(n).collect()
}

fn nv() -> NoValidation<Raw> {
    NoValidation::dangerous_no_validation()
}

/// apply tamper class `w` (same numbering as harness/common/l2.rs) to (payload, footer, aad)
fn tamper(w: u64, a: &Value, payload: &mut Vec<u8>, footer: &mut Vec<u8>, aad: &mut Vec<u8>, tag_len: usize, msg_end_is_sig: bool) {
    let pos = num(a, "pos", 0) as usize;
    let bit = num(a, "bit", 0) as u8 & 7;
    let x = num(a, "x", 0) as u8;
    let n = payload.len();
    let boundary = if msg_end_is_sig { n - tag_len } else { n - tag_len };
    match w {
        100 => {
            if pos < n {
                payload[pos] ^= 1 << bit;
            }
        }
        0 => {
            if pos < footer.len() {
                footer[pos] ^= 1 << bit;
            }
        }
        1 => {
            if pos < aad.len() {
                aad[pos] ^= 1 << bit;
            }
        }
        2 => footer.push(x),
        3 => {
            footer.pop();
        }
        4 => aad.push(x),
        5 => {
            aad.pop();
        }
        6 => {
            if let Some(b) = footer.pop() {
                aad.insert(0, b);
            }
        }
        7 => {
            if !aad.is_empty() {
                let b = aad.remove(0);
                footer.push(b);
            }
        }
        8 => {
            if boundary >= 1 {
                let b = payload.remove(boundary - 1);
                footer.insert(0, b);
            }
        }
        9 => {
            if !footer.is_empty() {
                let b = footer.remove(0);
                payload.insert(boundary, b);
            }
        }
        10 => {
            payload.pop();
        }
        11 => {
            if n > 0 {
                payload.remove(0);
            }
        }
        12 => payload.push(x),
        13 => payload.insert(0, x),
        _ => {}
    }
}

fn token_parts(s: &str, hdr: &str) -> (Vec<u8>, Vec<u8>) {
    // decode through the library itself: parse as SealedToken and re-extract via Display is circular;
    // use a tiny base64url decoder
    let rest = &s[hdr.len()..];
    let (p, f) = match rest.split_once('.') {
        Some((p, f)) => (p, f),
        None => (rest, ""),
    };
    (b64d(p), b64d(f))
}
fn b64d(s: &str) -> Vec<u8> {
    let val = |c: u8| -> u32 {
        match c {
            b'A'..=b'Z' => (c - b'A') as u32,
            b'a'..=b'z' => (c - b'a' + 26) as u32,
            b'0'..=b'9' => (c - b'0' + 52) as u32,
            b'-' => 62,
            _ => 63,
        }
    };
    let mut out = vec![];
    let mut acc = 0u32;
    let mut bits = 0;
    for c in s.bytes() {
        acc = (acc << 6) | val(c);
        bits += 6;
        if bits >= 8 {
            bits -= 8;
            out.push((acc >> bits) as u8);
        }
    }
    out
}
fn b64e(b: &[u8]) -> String {
    const A: &[u8; 64] = b"ABCDEFGHIJKLMNOPQRSTUVWXYZabcdefghijklmnopqrstuvwxyz0123456789-_";
    let mut s = String::new();
    for c in b.chunks(3) {
        let w = ((c[0] as u32) << 16) | ((*c.get(1).unwrap_or(&0) as u32) << 8) | *c.get(2).unwrap_or(&0) as u32;
        s.push(A[(w >> 18) as usize & 63] as char);
        s.push(A[(w >> 12) as usize & 63] as char);
        if c.len() > 1 {
            s.push(A[(w >> 6) as usize & 63] as char);
        }
        if c.len() > 2 {
            s.push(A[w as usize & 63] as char);
        }
    }
    s
}

trait Backend:
    SealingVersion<Local>
    + SealingVersion<Public>
    + PieWrapVersion
    + PwWrapVersion
    + PkeSealingVersion
    + PkeUnsealingVersion
    + HasKey<Secret>
    + HasKey<Public>
{
    const TAG: usize;
    const SIG: usize;
    fn pke_pair() -> Option<(Key<Self, PkePublic>, Key<Self, PkeSecret>)>;
}

fn local_roundtrip<V: Backend>(a: &Value) -> (bool, String) {
    let kb: [u8; 32] = bytes(a, "key").try_into().unwrap_or([7; 32]);
    let key = LocalKey::<V>::from(kb);
    let (m, f, ad) = (take(&bytes(a, "msg"), num(a, "m", 0) as usize), take(&bytes(a, "footer"), num(a, "f", 0) as usize), take(&bytes(a, "aad"), num(a, "a", 0) as usize));
    for _ in 0..num(a, "loops", 20) {
        let tok = UnsealedToken::<V, Local, Raw>::new(Raw(m.clone())).with_footer(f.clone());
        let sealed = match tok.encrypt_with_aad(&key, &ad) {
            Ok(s) => s,
            Err(e) => return (true, format!("CONDITION seal_err\nencrypt_with_aad failed: {e}")),
        };
        let s = sealed.to_string();
        let parsed: SealedToken<V, Local, Raw, Vec<u8>> = match s.parse() {
            Ok(p) => p,
            Err(e) => return (true, format!("CONDITION parse_err\nown token does not parse: {e} ({s})")),
        };
        match parsed.decrypt_with_aad(&key, &ad, &nv()) {
            Ok(t) => {
                if t.claims.0 != m || t.footer != f {
                    return (true, format!("CONDITION mismatch\nround trip returned {:?} for message {:?} (token {s})", t.claims.0, m));
                }
            }
            Err(e) => return (true, format!("CONDITION unseal_err\nown token does not decrypt: {e} ({s})")),
        }
    }
    (false, "round trip ok".into())
}

fn public_roundtrip<V: Backend>(a: &Value) -> (bool, String) {
    let (m, f, ad) = (take(&bytes(a, "msg"), num(a, "m", 0) as usize), take(&bytes(a, "footer"), num(a, "f", 0) as usize), take(&bytes(a, "aad"), num(a, "a", 0) as usize));
    let sk = match SecretKey::<V>::random() {
        Ok(k) => k,
        Err(e) => return (true, format!("CONDITION keygen_err\n{e}")),
    };
    let pk = sk.public_key();
    for i in 0..num(a, "loops", 20) {
        let tok = UnsealedToken::<V, Public, Raw>::new(Raw(m.clone())).with_footer(f.clone());
        let sealed = match tok.sign_with_aad(&sk, &ad) {
            Ok(s) => s,
            Err(e) => return (true, format!("CONDITION seal_err\nsign_with_aad failed at iteration {i}: {e}")),
        };
        let s = sealed.to_string();
        let parsed: SealedToken<V, Public, Raw, Vec<u8>> = match s.parse() {
            Ok(p) => p,
            Err(e) => return (true, format!("CONDITION parse_err\nown token does not parse: {e}")),
        };
        match parsed.verify_with_aad(&pk, &ad, &nv()) {
            Ok(t) => {
                if t.claims.0 != m || t.footer != f {
                    return (true, "CONDITION mismatch\nround trip changed the message".into());
                }
            }
            Err(e) => return (true, format!("CONDITION unseal_err\nown token does not verify: {e} ({s})")),
        }
    }
    (false, "round trip ok".into())
}

fn local_tamper<V: Backend>(a: &Value, hdr: &str) -> (bool, String) {
    let kb: [u8; 32] = bytes(a, "key").try_into().unwrap_or([7; 32]);
    let key = LocalKey::<V>::from(kb);
    let (m, f, ad) = (take(&bytes(a, "msg"), num(a, "m", 0) as usize), take(&bytes(a, "footer"), num(a, "f", 0) as usize), take(&bytes(a, "aad"), num(a, "a", 0) as usize));
    let w = num(a, "w", 100);
    let tok = UnsealedToken::<V, Local, Raw>::new(Raw(m.clone())).with_footer(f.clone());
    let sealed = match tok.encrypt_with_aad(&key, &ad) {
        Ok(s) => s,
        Err(e) => return (false, format!("could not seal: {e}")),
    };
    let (mut p, mut f2) = token_parts(&sealed.to_string(), hdr);
    let mut a2 = ad.clone();
    tamper(w, a, &mut p, &mut f2, &mut a2, V::TAG, false);
    let key2 = if w == 14 {
        let mut k2: [u8; 32] = bytes(a, "key2").try_into().unwrap_or([9; 32]);
        if k2 == kb {
            k2[0] ^= 1;
        }
        LocalKey::<V>::from(k2)
    } else {
        LocalKey::<V>::from(kb)
    };
    let s2 = if f2.is_empty() { format!("{hdr}{}", b64e(&p)) } else { format!("{hdr}{}.{}", b64e(&p), b64e(&f2)) };
    let parsed: SealedToken<V, Local, Raw, Vec<u8>> = match s2.parse() {
        Ok(p) => p,
        Err(_) => return (false, "tampered token does not even parse".into()),
    };
    match parsed.decrypt_with_aad(&key2, &a2, &nv()) {
        Ok(t) => (true, format!("CONDITION accepted\ntampered token ACCEPTED (class {w}); claims {:?}; token {s2}", t.claims.0)),
        Err(e) => (false, format!("rejected: {e}")),
    }
}

fn public_tamper<V: Backend>(a: &Value, hdr: &str) -> (bool, String) {
    let (m, f, ad) = (take(&bytes(a, "msg"), num(a, "m", 0) as usize), take(&bytes(a, "footer"), num(a, "f", 0) as usize), take(&bytes(a, "aad"), num(a, "a", 0) as usize));
    let w = num(a, "w", 100);
    let sk = SecretKey::<V>::random().unwrap();
    let pk = sk.public_key();
    let tok = UnsealedToken::<V, Public, Raw>::new(Raw(m.clone())).with_footer(f.clone());
    let sealed = match tok.sign_with_aad(&sk, &ad) {
        Ok(s) => s,
        Err(e) => return (false, format!("could not sign: {e}")),
    };
    let (mut p, mut f2) = token_parts(&sealed.to_string(), hdr);
    let mut a2 = ad.clone();
    tamper(w, a, &mut p, &mut f2, &mut a2, V::SIG, true);
    let pk2 = if w == 14 { SecretKey::<V>::random().unwrap().public_key() } else { pk };
    let s2 = if f2.is_empty() { format!("{hdr}{}", b64e(&p)) } else { format!("{hdr}{}.{}", b64e(&p), b64e(&f2)) };
    let parsed: SealedToken<V, Public, Raw, Vec<u8>> = match s2.parse() {
        Ok(p) => p,
        Err(_) => return (false, "tampered token does not even parse".into()),
    };
    match parsed.verify_with_aad(&pk2, &a2, &nv()) {
        Ok(_) => (true, format!("CONDITION accepted\ntampered signed token ACCEPTED (class {w}): {s2}")),
        Err(e) => (false, format!("rejected: {e}")),
    }
}

fn pie<V: Backend>(a: &Value, header: &'static str, other: &'static str) -> (bool, String) {
    let kb: [u8; 32] = bytes(a, "wkey").try_into().unwrap_or([3; 32]);
    let wk = <V as HasKey<Local>>::decode(&kb).unwrap();
    let kd = bytes(a, "kd");
    let w = num(a, "w", 255);
    for _ in 0..num(a, "loops", 10) {
        let mut out = match V::pie_wrap_key(header, &wk, kd.clone()) {
            Ok(o) => o,
            Err(e) => return (w == 255, format!("CONDITION wrap_err\npie wrap failed: {e}")),
        };
        if w == 255 {
            match V::pie_unwrap_key(header, &wk, &mut out) {
                Ok(k) if k == &kd[..] => {}
                Ok(_) => return (true, "CONDITION mismatch\nunwrapped key differs".into()),
                Err(e) => return (true, format!("CONDITION unwrap_err\ncannot unwrap own output: {e}")),
            }
            continue;
        }
        let n = out.len();
        let mut hdr = header;
        let mut k2 = kb;
        match w {
            0 => {
                let pos = num(a, "pos", 0) as usize % n;
                out[pos] ^= 1 << (num(a, "bit", 0) as u8 & 7);
            }
            1 => hdr = other,
            2 => {
                k2 = bytes(a, "wkey2").try_into().unwrap_or([4; 32]);
                if k2 == kb {
                    k2[0] ^= 1;
                }
            }
            3 => {
                out.pop();
            }
            _ => out.push(num(a, "x", 0) as u8),
        }
        let wk2 = <V as HasKey<Local>>::decode(&k2).unwrap();
        return match V::pie_unwrap_key(hdr, &wk2, &mut out) {
            Ok(_) => (true, format!("CONDITION accepted\ntampered PIE blob accepted (class {w})")),
            Err(e) => (false, format!("rejected: {e}")),
        };
    }
    (false, "ok".into())
}

fn pw<V: Backend>(a: &Value, header: &'static str, other: &'static str) -> (bool, String) {
    let pass = bytes(a, "pass");
    let kd = bytes(a, "kd");
    let w = num(a, "w", 255);
    let params = V::Params::default();
    let mut out = match V::pw_wrap_key(header, &pass, &params, kd.clone()) {
        Ok(o) => o,
        Err(e) => return (w == 255, format!("CONDITION wrap_err\npassword wrap with default parameters failed: {e}")),
    };
    if w == 255 {
        return match V::pw_unwrap_key(header, &pass, &mut out) {
            Ok(k) if k == &kd[..] => (false, "ok".into()),
            Ok(_) => (true, "CONDITION mismatch\nunwrapped key differs".into()),
            Err(e) => (true, format!("CONDITION unwrap_err\ncannot unwrap own output: {e}")),
        };
    }
    let n = out.len();
    let mut hdr = header;
    let mut p2 = pass.clone();
    match w {
        0 => {
            let pos = num(a, "pos", 0) as usize % n;
            out[pos] ^= 1 << (num(a, "bit", 0) as u8 & 7);
        }
        1 => hdr = other,
        2 => {
            p2 = bytes(a, "pass2");
            if p2 == pass {
                p2.push(1);
            }
        }
        3 => p2.push(num(a, "x", 0) as u8),
        4 => {
            p2.pop();
        }
        5 => {
            out.pop();
        }
        _ => out.push(num(a, "x", 0) as u8),
    }
    match V::pw_unwrap_key(hdr, &p2, &mut out) {
        Ok(_) => (true, format!("CONDITION accepted\ntampered PBKW blob accepted (class {w})")),
        Err(e) => (false, format!("rejected: {e}")),
    }
}

fn pke<V: Backend>(a: &Value) -> (bool, String) {
    let w = num(a, "w", 255);
    let (pk, sk) = match V::pke_pair() {
        Some(p) => p,
        None => return (false, "no key pair".into()),
    };
    let kb: [u8; 32] = bytes(a, "key").try_into().unwrap_or([5; 32]);
    for i in 0..num(a, "loops", 50) {
        let sealed = match LocalKey::<V>::from(kb).seal(&pk) {
            Ok(s) => s,
            Err(e) => return (w == 255, format!("CONDITION seal_err\nseal failed: {e}")),
        };
        let s = sealed.to_string();
        let hdr_len = s.find(".seal.").unwrap() + 6;
        let mut blob = b64d(&s[hdr_len..]);
        if w == 255 {
            let want = num(a, "out_len", 0) as usize;
            if want != 0 && blob.len() != want {
                // keep going to also show the unseal failure
                let parsed: Result<paseto_core::paserk::SealedKey<V>, _> = s.parse();
                let r = parsed.and_then(|p| p.unseal(&sk));
                return (true, format!("CONDITION wrong_len\nsealed key has {} bytes instead of {want} at iteration {i}; unseal: {}", blob.len(), if r.is_ok() { "ok" } else { "FAILS" }));
            }
            let parsed: paseto_core::paserk::SealedKey<V> = s.parse().unwrap();
            match parsed.unseal(&sk) {
                Ok(k) if k.expose_key().as_raw_bytes() == &kb[..] => {}
                Ok(_) => return (true, "CONDITION mismatch\nunsealed key differs".into()),
                Err(e) => return (true, format!("CONDITION unseal_err\ncannot unseal own output at iteration {i}: {e}")),
            }
            continue;
        }
        let n = blob.len();
        let mut sk2 = None;
        match w {
            0 => {
                let pos = num(a, "pos", 0) as usize % n;
                blob[pos] ^= 1 << (num(a, "bit", 0) as u8 & 7);
            }
            1 => sk2 = V::pke_pair().map(|p| p.1),
            2 => {
                blob.pop();
            }
            _ => blob.push(num(a, "x", 0) as u8),
        }
        let s2 = format!("{}{}", &s[..hdr_len], b64e(&blob));
        let parsed: paseto_core::paserk::SealedKey<V> = match s2.parse() {
            Ok(p) => p,
            Err(_) => return (false, "does not parse".into()),
        };
        return match parsed.unseal(sk2.as_ref().unwrap_or(&sk)) {
            Ok(_) => (true, format!("CONDITION accepted\ntampered sealed key accepted (class {w})")),
            Err(e) => (false, format!("rejected: {e}")),
        };
    }
    (false, "ok".into())
}

macro_rules! backend {
    ($v:ty, $tag:expr, $sig:expr, $pke:expr) => {
        impl Backend for $v {
            const TAG: usize = $tag;
            const SIG: usize = $sig;
            fn pke_pair() -> Option<(Key<Self, PkePublic>, Key<Self, PkeSecret>)> {
                $pke
            }
        }
    };
}
fn pair_from_signing<V>() -> Option<(Key<V, PkePublic>, Key<V, PkeSecret>)>
where
    V: SealingVersion<Public> + HasKey<PkePublic> + HasKey<PkeSecret> + HasKey<Secret> + HasKey<Public>,
{
    let sk = SecretKey::<V>::random().ok()?;
    let pk = sk.public_key();
    let skb = sk.expose_key().as_raw_bytes().to_vec();
    let pkb = pk.expose_key().as_raw_bytes().to_vec();
    let pks: Key<V, PkePublic> = KeyText::<V, PkePublic>::from_raw_bytes(&pkb).try_into().ok()?;
    let sks: Key<V, PkeSecret> = KeyText::<V, PkeSecret>::from_raw_bytes(&skb).try_into().ok()?;
    Some((pks, sks))
}
backend!(paseto_v2::core::V2, 16, 64, pair_from_signing::<paseto_v2::core::V2>());
backend!(paseto_v3::core::V3, 48, 96, pair_from_signing::<paseto_v3::core::V3>());
backend!(paseto_v3_aws_lc::core::V3, 48, 96, pair_from_signing::<paseto_v3_aws_lc::core::V3>());
backend!(paseto_v4::core::V4, 32, 64, pair_from_signing::<paseto_v4::core::V4>());
backend!(paseto_v4_sodium::core::V4, 32, 64, pair_from_signing::<paseto_v4_sodium::core::V4>());
fn v1_pair() -> Option<(Key<paseto_v1::core::V1, PkePublic>, Key<paseto_v1::core::V1, PkeSecret>)> {
    // RSA-4096 key generation is slow; use the key pair of the repository's own k1.seal test vector
    let repo = std::env::var("VERIF_REPO").unwrap_or_else(|_| "/repo".into());
    let txt = std::fs::read_to_string(format!("{repo}/paseto-test/tests/vectors/k1.seal.json")).ok()?;
    let v: Value = serde_json::from_str(&txt).ok()?;
    let t = &v["tests"][0];
    let sk = t["sealing-secret-key"].as_str()?;
    let pk = t["sealing-public-key"].as_str()?;
    let pks: Key<paseto_v1::core::V1, PkePublic> = KeyText::from_raw_bytes(pk.as_bytes()).try_into().ok()?;
    let sks: Key<paseto_v1::core::V1, PkeSecret> = KeyText::from_raw_bytes(sk.as_bytes()).try_into().ok()?;
    Some((pks, sks))
}
backend!(paseto_v1::core::V1, 48, 256, v1_pair());

fn dispatch<V: Backend>(recipe: &str, a: &Value, vh: &str, kh: &str) -> (bool, String) {
    let _ = kh;
    match recipe {
        "local_roundtrip" => local_roundtrip::<V>(a),
        "public_roundtrip" => public_roundtrip::<V>(a),
        "local_tamper" => local_tamper::<V>(a, &format!("{vh}.local.")),
        "public_tamper" => public_tamper::<V>(a, &format!("{vh}.public.")),
        "pie" => {
            if text(a, "kind") == "secret" { pie::<V>(a, ".secret-wrap.pie.", ".local-wrap.pie.") } else { pie::<V>(a, ".local-wrap.pie.", ".secret-wrap.pie.") }
        }
        "pw" => {
            if text(a, "kind") == "secret" { pw::<V>(a, ".secret-pw.", ".local-pw.") } else { pw::<V>(a, ".local-pw.", ".secret-pw.") }
        }
        "pke" => pke::<V>(a),
        _ => (false, format!("unknown recipe {recipe}")),
    }
}

fn parse_any(a: &Value) -> (bool, String) {
    // every parser of every backend on the given string; then use what parsed (display, id)
    let s = text(a, "string").to_string();
    macro_rules! try_all {
        ($v:ty) => {{
            let r = catch_unwind(AssertUnwindSafe(|| {
                if let Ok(k) = s.parse::<paseto_core::PublicKey<$v>>() {
                    let _ = k.to_string();
                    let _ = k.expose_key().to_string();
                    let _ = k.id().to_string();
                }
                if let Ok(k) = s.parse::<paseto_core::SecretKey<$v>>() {
                    let _ = k.expose_key().to_string();
                    let _ = k.public_key().to_string();
                    let _ = k.id().to_string();
                }
                if let Ok(k) = s.parse::<paseto_core::LocalKey<$v>>() {
                    let _ = k.expose_key().to_string();
                    let _ = k.id().to_string();
                }
                let _ = s.parse::<paseto_core::paserk::SealedKey<$v>>().map(|k| k.to_string());
                let _ = s.parse::<paseto_core::paserk::KeyId<$v, Local>>().map(|k| k.to_string());
                let _ = s.parse::<paseto_core::paserk::PieWrappedKey<$v, Local>>().map(|k| k.to_string());
                let _ = s.parse::<paseto_core::paserk::PasswordWrappedKey<$v, Local>>().map(|k| k.to_string());
                let _ = s.parse::<SealedToken<$v, Local, Raw, Vec<u8>>>().map(|k| k.to_string());
                let _ = s.parse::<SealedToken<$v, Public, Raw, Vec<u8>>>().map(|k| k.to_string());
            }));
            if r.is_err() {
                return (true, format!("CONDITION panic\nbackend {} panicked on {:?}", stringify!($v), s));
            }
        }};
    }
    try_all!(paseto_v1::core::V1);
    try_all!(paseto_v2::core::V2);
    try_all!(paseto_v3::core::V3);
    try_all!(paseto_v3_aws_lc::core::V3);
    try_all!(paseto_v4::core::V4);
    try_all!(paseto_v4_sodium::core::V4);
    (false, "no panic".into())
}

fn main() {
    let recipe = std::env::args().nth(1).unwrap_or_default();
    let mut inp = String::new();
    std::io::stdin().read_to_string(&mut inp).unwrap();
    let a: Value = serde_json::from_str(&inp).unwrap_or(Value::Null);
    std::panic::set_hook(Box::new(|_| {}));
    let r = catch_unwind(AssertUnwindSafe(|| {
        if recipe == "parse_any" {
            return parse_any(&a);
        }
        match text(&a, "backend") {
            "v1" => dispatch::<paseto_v1::core::V1>(&recipe, &a, "v1", "k1"),
            "v2" => dispatch::<paseto_v2::core::V2>(&recipe, &a, "v2", "k2"),
            "v3" => dispatch::<paseto_v3::core::V3>(&recipe, &a, "v3", "k3"),
            "v3-aws-lc" => dispatch::<paseto_v3_aws_lc::core::V3>(&recipe, &a, "v3", "k3"),
            "v4" => dispatch::<paseto_v4::core::V4>(&recipe, &a, "v4", "k4"),
            "v4-sodium" => dispatch::<paseto_v4_sodium::core::V4>(&recipe, &a, "v4", "k4"),
            b => (false, format!("unknown backend {b}")),
        }
    }));
    match r {
        Ok((true, msg)) => println!("{msg}\nREPRODUCED"),
        Ok((false, msg)) => println!("{msg}\nNOT-REPRODUCED"),
        Err(_) => println!("CONDITION panic\nthe real code panicked\nREPRODUCED"),
    }
}
