//! Native replay of solver counterexamples against the REAL crates of /repo (real crypto).
//! usage: replay <recipe> < args.json      prints REPRODUCED / NOT-REPRODUCED (+ CONDITION tag)
use std::error::Error;
use std::io::Read;
use std::panic::{catch_unwind, AssertUnwindSafe};

use paseto_core::encodings::{Payload, WriteBytes};
use paseto_core::key::{HasKey, Key};
use paseto_core::paserk::{KeyText, PieWrapVersion, PkeSealingVersion, PkeUnsealingVersion, PwWrapVersion};
use paseto_core::tokens::{SealedToken, UnsealedToken};
use paseto_core::validation::NoValidation;
use paseto_core::version::{Local, PkePublic, PkeSecret, Public, SealingVersion, Secret};
use paseto_core::{LocalKey, SecretKey};
use serde_json::Value;

struct Raw(Vec<u8>);
impl Payload for Raw {
    const SUFFIX: &'static str = "";
    fn encode(self, mut w: impl WriteBytes) -> Result<(), Box<dyn Error + Send + Sync>> {
        w.write(&self.0);
        Ok(())
    }
    fn decode(p: &[u8]) -> Result<Self, Box<dyn Error + Send + Sync>> {
        Ok(Raw(p.to_vec()))
    }
}

fn bytes(v: &Value, k: &str) -> Vec<u8> {
    v.get(k).and_then(|x| x.as_array()).map(|a| a.iter().map(|b| b.as_u64().unwrap_or(0) as u8).collect()).unwrap_or_default()
}
fn num(v: &Value, k: &str, d: u64) -> u64 {
    v.get(k).and_then(|x| x.as_u64()).unwrap_or(d)
}
fn text<'a>(v: &'a Value, k: &str) -> &'a str {
    v.get(k).and_then(|x| x.as_str()).unwrap_or("")
}
fn take(b: &[u8], n: usize) -> Vec<u8> {
    b.iter().cloned().take(n).collect()
}

fn nv() -> NoValidation<Raw> {
    NoValidation::dangerous_no_validation()
}

/// apply tamper class `w` (same numbering as harness/common/l2.rs) to (payload, footer, aad)
fn tamper(w: u64, a: &Value, payload: &mut Vec<u8>, footer: &mut Vec<u8>, aad: &mut Vec<u8>, tag_len: usize, msg_end_is_sig: bool) {
    let pos = num(a, "pos", 0) as usize;
    let bit = num(a, "bit", 0) as u8 & 7;
    let x = num(a, "x", 0) as u8;
    let n = payload.len();
    let boundary = if msg_end_is_sig { n - tag_len } else { n - tag_len };
    match w {
        100 => {
            if pos < n {
                payload[pos] ^= 1 << bit;
            }
        }
        0 => {
            if pos < footer.len() {
                footer[pos] ^= 1 << bit;
            }
        }
        1 => {
            if pos < aad.len() {
                aad[pos] ^= 1 << bit;
            }
        }
        2 => footer.push(x),
        3 => {
            footer.pop();
        }
        4 => aad.push(x),
        5 => {
            aad.pop();
        }
        6 => {
            if let Some(b) = footer.pop() {
                aad.insert(0, b);
            }
        }
        7 => {
            if !aad.is_empty() {
                let b = aad.remove(0);
                footer.push(b);
            }
        }
        8 => {
            if boundary >= 1 {
                let b = payload.remove(boundary - 1);
                footer.insert(0, b);
            }
        }
        9 => {
            if !footer.is_empty() {
                let b = footer.remove(0);
                payload.insert(boundary, b);
            }
        }
        10 => {
            payload.pop();
        }
        11 => {
            if n > 0 {
                payload.remove(0);
            }
        }
        12 => payload.push(x),
        13 => payload.insert(0, x),
        _ => {}
    }
}

fn token_parts(s: &str, hdr: &str) -> (Vec<u8>, Vec<u8>) {
    // decode through the library itself: parse as SealedToken and re-extract via Display is circular;
    // use a tiny base64url decoder
    let rest = &s[hdr.len()..];
    let (p, f) = match rest.split_once('.') {
        Some((p, f)) => (p, f),
        None => (rest, ""),
    };
    (b64d(p), b64d(f))
}
fn b64d(s: &str) -> Vec<u8> {
    let val = |c: u8| -> u32 {
        match c {
            b'A'..=b'Z' => (c - b'A') as u32,
            b'a'..=b'z' => (c - b'a' + 26) as u32,
            b'0'..=b'9' => (c - b'0' + 52) as u32,
            b'-' => 62,
            _ => 63,
        }
    };
    let mut out = vec![];
    let mut acc = 0u32;
    let mut bits = 0;
    for c in s.bytes() {
        acc = (acc << 6) | val(c);
        bits += 6;
        if bits >= 8 {
            bits -= 8;
            out.push((acc >> bits) as u8);
        }
    }
    out
}
fn b64e(b: &[u8]) -> String {
    const A: &[u8; 64] = b"ABCDEFGHIJKLMNOPQRSTUVWXYZabcdefghijklmnopqrstuvwxyz0123456789-_";
    let mut s = String::new();
    for c in b.chunks(3) {
        let w = ((c[0] as u32) << 16) | ((*c.get(1).unwrap_or(&0) as u32) << 8) | *c.get(2).unwrap_or(&0) as u32;
        s.push(A[(w >> 18) as usize & 63] as char);
        s.push(A[(w >> 12) as usize & 63] as char);
        if c.len() > 1 {
            s.push(A[(w >> 6) as usize & 63] as char);
        }
        if c.len() > 2 {
            s.push(A[w as usize & 63] as char);
        }
    }
    s
}

trait Backend:
    SealingVersion<Local>
    + SealingVersion<Public>
    + PieWrapVersion
    + PwWrapVersion
    + PkeSealingVersion
    + PkeUnsealingVersion
    + HasKey<Secret>
    + HasKey<Public>
{
    const TAG: usize;
    const SIG: usize;
    fn pke_pair() -> Option<(Key<Self, PkePublic>, Key<Self, PkeSecret>)>;
}

fn local_roundtrip<V: Backend>(a: &Value) -> (bool, String) {
    let kb: [u8; 32] = bytes(a, "key").try_into().unwrap_or([7; 32]);
    let key = LocalKey::<V>::from(kb);
    let (m, f, ad) = (take(&bytes(a, "msg"), num(a, "m", 0) as usize), take(&bytes(a, "footer"), num(a, "f", 0) as usize), take(&bytes(a, "aad"), num(a, "a", 0) as usize));
    for _ in 0..num(a, "loops", 20) {
        let tok = UnsealedToken::<V, Local, Raw>::new(Raw(m.clone())).with_footer(f.clone());
        let sealed = match tok.encrypt_with_aad(&key, &ad) {
            Ok(s) => s,
            Err(e) => return (true, format!("CONDITION seal_err\nencrypt_with_aad failed: {e}")),
        };
        let s = sealed.to_string();
        let parsed: SealedToken<V, Local, Raw, Vec<u8>> = match s.parse() {
            Ok(p) => p,
            Err(e) => return (true, format!("CONDITION parse_err\nown token does not parse: {e} ({s})")),
        };
        match parsed.decrypt_with_aad(&key, &ad, &nv()) {
            Ok(t) => {
                if t.claims.0 != m || t.footer != f {
                    return (true, format!("CONDITION mismatch\nround trip returned {:?} for message {:?} (token {s})", t.claims.0, m));
                }
            }
            Err(e) => return (true, format!("CONDITION unseal_err\nown token does not decrypt: {e} ({s})")),
        }
    }
    (false, "round trip ok".into())
}

fn public_roundtrip<V: Backend>(a: &Value) -> (bool, String) {
    let (m, f, ad) = (take(&bytes(a, "msg"), num(a, "m", 0) as usize), take(&bytes(a, "footer"), num(a, "f", 0) as usize), take(&bytes(a, "aad"), num(a, "a", 0) as usize));
    let sk = match SecretKey::<V>::random() {
        Ok(k) => k,
        Err(e) => return (true, format!("CONDITION keygen_err\n{e}")),
    };
    let pk = sk.public_key();
    for i in 0..num(a, "loops", 20) {
        let tok = UnsealedToken::<V, Public, Raw>::new(Raw(m.clone())).with_footer(f.clone());
        let sealed = match tok.sign_with_aad(&sk, &ad) {
            Ok(s) => s,
            Err(e) => return (true, format!("CONDITION seal_err\nsign_with_aad failed at iteration {i}: {e}")),
        };
        let s = sealed.to_string();
        let parsed: SealedToken<V, Public, Raw, Vec<u8>> = match s.parse() {
            Ok(p) => p,
            Err(e) => return (true, format!("CONDITION parse_err\nown token does not parse: {e}")),
        };
        match parsed.verify_with_aad(&pk, &ad, &nv()) {
            Ok(t) => {
                if t.claims.0 != m || t.footer != f {
                    return (true, "CONDITION mismatch\nround trip changed the message".into());
                }
            }
            Err(e) => return (true, format!("CONDITION unseal_err\nown token does not verify: {e} ({s})")),
        }
    }
    (false, "round trip ok".into())
}

fn local_tamper<V: Backend>(a: &Value, hdr: &str) -> (bool, String) {
    let kb: [u8; 32] = bytes(a, "key").try_into().unwrap_or([7; 32]);
    let key = LocalKey::<V>::from(kb);
    let (m, f, ad) = (take(&bytes(a, "msg"), num(a, "m", 0) as usize), take(&bytes(a, "footer"), num(a, "f", 0) as usize), take(&bytes(a, "aad"), num(a, "a", 0) as usize));
    let w = num(a, "w", 100);
    let tok = UnsealedToken::<V, Local, Raw>::new(Raw(m.clone())).with_footer(f.clone());
    let sealed = match tok.encrypt_with_aad(&key, &ad) {
        Ok(s) => s,
        Err(e) => return (false, format!("could not seal: {e}")),
    };
    let (mut p, mut f2) = token_parts(&sealed.to_string(), hdr);
    let mut a2 = ad.clone();
    tamper(w, a, &mut p, &mut f2, &mut a2, V::TAG, false);
    let key2 = if w == 14 {
        let mut k2: [u8; 32] = bytes(a, "key2").try_into().unwrap_or([9; 32]);
        if k2 == kb {
            k2[0] ^= 1;
        }
        LocalKey::<V>::from(k2)
    } else {
        LocalKey::<V>::from(kb)
    };
    let s2 = if f2.is_empty() { format!("{hdr}{}", b64e(&p)) } else { format!("{hdr}{}.{}", b64e(&p), b64e(&f2)) };
    let parsed: SealedToken<V, Local, Raw, Vec<u8>> = match s2.parse() {
        Ok(p) => p,
        Err(_) => return (false, "tampered token does not even parse".into()),
    };
    match parsed.decrypt_with_aad(&key2, &a2, &nv()) {
        Ok(t) => (true, format!("CONDITION accepted\ntampered token ACCEPTED (class {w}); claims {:?}; token {s2}", t.claims.0)),
        // the replay payload type (Raw) never fails to decode: a payload-processing error on a token that
        // fails authentication means the library looked at unauthenticated plaintext (C12)
        Err(e @ paseto_core::PasetoError::PayloadError(_)) => (true, format!("CONDITION unauthenticated_use\ntampered token (class {w}) rejected with a payload-processing error ({e}): plaintext was used before authentication; token {s2}")),
        Err(e) => (false, format!("rejected: {e}")),
    }
}

fn public_tamper<V: Backend>(a: &Value, hdr: &str) -> (bool, String) {
    let (m, f, ad) = (take(&bytes(a, "msg"), num(a, "m", 0) as usize), take(&bytes(a, "footer"), num(a, "f", 0) as usize), take(&bytes(a, "aad"), num(a, "a", 0) as usize));
    let w = num(a, "w", 100);
    let sk = SecretKey::<V>::random().unwrap();
    let pk = sk.public_key();
    let tok = UnsealedToken::<V, Public, Raw>::new(Raw(m.clone())).with_footer(f.clone());
    let sealed = match tok.sign_with_aad(&sk, &ad) {
        Ok(s) => s,
        Err(e) => return (false, format!("could not sign: {e}")),
    };
    let (mut p, mut f2) = token_parts(&sealed.to_string(), hdr);
    let mut a2 = ad.clone();
    tamper(w, a, &mut p, &mut f2, &mut a2, V::SIG, true);
    let pk2 = if w == 14 { SecretKey::<V>::random().unwrap().public_key() } else { pk };
    let s2 = if f2.is_empty() { format!("{hdr}{}", b64e(&p)) } else { format!("{hdr}{}.{}", b64e(&p), b64e(&f2)) };
    let parsed: SealedToken<V, Public, Raw, Vec<u8>> = match s2.parse() {
        Ok(p) => p,
        Err(_) => return (false, "tampered token does not even parse".into()),
    };
    match parsed.verify_with_aad(&pk2, &a2, &nv()) {
        Ok(_) => (true, format!("CONDITION accepted\ntampered signed token ACCEPTED (class {w}): {s2}")),
        Err(e) => (false, format!("rejected: {e}")),
    }
}

fn pie<V: Backend>(a: &Value, header: &'static str, other: &'static str) -> (bool, String) {
    let kb: [u8; 32] = bytes(a, "wkey").try_into().unwrap_or([3; 32]);
    let wk = <V as HasKey<Local>>::decode(&kb).unwrap();
    let kd = bytes(a, "kd");
    let w = num(a, "w", 255);
    for _ in 0..num(a, "loops", 10) {
        let mut out = match V::pie_wrap_key(header, &wk, kd.clone()) {
            Ok(o) => o,
            Err(e) => return (w == 255, format!("CONDITION wrap_err\npie wrap failed: {e}")),
        };
        if w == 255 {
            match V::pie_unwrap_key(header, &wk, &mut out) {
                Ok(k) if k == &kd[..] => {}
                Ok(_) => return (true, "CONDITION mismatch\nunwrapped key differs".into()),
                Err(e) => return (true, format!("CONDITION unwrap_err\ncannot unwrap own output: {e}")),
            }
            continue;
        }
        let n = out.len();
        let mut hdr = header;
        let mut k2 = kb;
        match w {
            0 => {
                let pos = num(a, "pos", 0) as usize % n;
                out[pos] ^= 1 << (num(a, "bit", 0) as u8 & 7);
            }
            1 => hdr = other,
            2 => {
                k2 = bytes(a, "wkey2").try_into().unwrap_or([4; 32]);
                if k2 == kb {
                    k2[0] ^= 1;
                }
            }
            3 => {
                out.pop();
            }
            _ => out.push(num(a, "x", 0) as u8),
        }
        let wk2 = <V as HasKey<Local>>::decode(&k2).unwrap();
        return match V::pie_unwrap_key(hdr, &wk2, &mut out) {
            Ok(_) => (true, format!("CONDITION accepted\ntampered PIE blob accepted (class {w})")),
            Err(e) => (false, format!("rejected: {e}")),
        };
    }
    (false, "ok".into())
}

fn pw<V: Backend>(a: &Value, header: &'static str, other: &'static str) -> (bool, String) {
    let pass = bytes(a, "pass");
    let kd = bytes(a, "kd");
    let w = num(a, "w", 255);
    let params = V::Params::default();
    let mut out = match V::pw_wrap_key(header, &pass, &params, kd.clone()) {
        Ok(o) => o,
        Err(e) => return (w == 255, format!("CONDITION wrap_err\npassword wrap with default parameters failed: {e}")),
    };
    if w == 255 {
        return match V::pw_unwrap_key(header, &pass, &mut out) {
            Ok(k) if k == &kd[..] => (false, "ok".into()),
            Ok(_) => (true, "CONDITION mismatch\nunwrapped key differs".into()),
            Err(e) => (true, format!("CONDITION unwrap_err\ncannot unwrap own output: {e}")),
        };
    }
    let n = out.len();
    let mut hdr = header;
    let mut p2 = pass.clone();
    match w {
        0 => {
            let pos = num(a, "pos", 0) as usize % n;
            out[pos] ^= 1 << (num(a, "bit", 0) as u8 & 7);
        }
        1 => hdr = other,
        2 => {
            p2 = bytes(a, "pass2");
            if p2 == pass {
                p2.push(1);
            }
        }
        3 => p2.push(num(a, "x", 0) as u8),
        4 => {
            p2.pop();
        }
        5 => {
            out.pop();
        }
        _ => out.push(num(a, "x", 0) as u8),
    }
    match V::pw_unwrap_key(hdr, &p2, &mut out) {
        Ok(_) => (true, format!("CONDITION accepted\ntampered PBKW blob accepted (class {w})")),
        Err(e) => (false, format!("rejected: {e}")),
    }
}

fn pke<V: Backend>(a: &Value) -> (bool, String) {
    let w = num(a, "w", 255);
    let (pk, sk) = match V::pke_pair() {
        Some(p) => p,
        None => return (false, "no key pair".into()),
    };
    let kb: [u8; 32] = bytes(a, "key").try_into().unwrap_or([5; 32]);
    for i in 0..num(a, "loops", 50) {
        let sealed = match LocalKey::<V>::from(kb).seal(&pk) {
            Ok(s) => s,
            Err(e) => return (w == 255, format!("CONDITION seal_err\nseal failed: {e}")),
        };
        let s = sealed.to_string();
        let hdr_len = s.find(".seal.").unwrap() + 6;
        let mut blob = b64d(&s[hdr_len..]);
        if w == 255 {
            let want = num(a, "out_len", 0) as usize;
            if want != 0 && blob.len() != want {
                // keep going to also show the unseal failure
                let parsed: Result<paseto_core::paserk::SealedKey<V>, _> = s.parse();
                let r = parsed.and_then(|p| p.unseal(&sk));
                return (true, format!("CONDITION wrong_len\nsealed key has {} bytes instead of {want} at iteration {i}; unseal: {}", blob.len(), if r.is_ok() { "ok" } else { "FAILS" }));
            }
            let parsed: paseto_core::paserk::SealedKey<V> = s.parse().unwrap();
            match parsed.unseal(&sk) {
                Ok(k) if k.expose_key().as_raw_bytes() == &kb[..] => {}
                Ok(_) => return (true, "CONDITION mismatch\nunsealed key differs".into()),
                Err(e) => return (true, format!("CONDITION unseal_err\ncannot unseal own output at iteration {i}: {e}")),
            }
            continue;
        }
        let n = blob.len();
        let mut sk2 = None;
        match w {
            0 => {
                let pos = num(a, "pos", 0) as usize % n;
                blob[pos] ^= 1 << (num(a, "bit", 0) as u8 & 7);
            }
            1 => sk2 = V::pke_pair().map(|p| p.1),
            2 => {
                blob.pop();
            }
            _ => blob.push(num(a, "x", 0) as u8),
        }
        let s2 = format!("{}{}", &s[..hdr_len], b64e(&blob));
        let parsed: paseto_core::paserk::SealedKey<V> = match s2.parse() {
            Ok(p) => p,
            Err(_) => return (false, "does not parse".into()),
        };
        return match parsed.unseal(sk2.as_ref().unwrap_or(&sk)) {
            Ok(_) => (true, format!("CONDITION accepted\ntampered sealed key accepted (class {w})")),
            Err(e) => (false, format!("rejected: {e}")),
        };
    }
    (false, "ok".into())
}

macro_rules! backend {
    ($v:ty, $tag:expr, $sig:expr, $pke:expr) => {
        impl Backend for $v {
            const TAG: usize = $tag;
            const SIG: usize = $sig;
            fn pke_pair() -> Option<(Key<Self, PkePublic>, Key<Self, PkeSecret>)> {
                $pke
            }
        }
    };
}
fn pair_from_signing<V>() -> Option<(Key<V, PkePublic>, Key<V, PkeSecret>)>
where
    V: SealingVersion<Public> + HasKey<PkePublic> + HasKey<PkeSecret> + HasKey<Secret> + HasKey<Public>,
{
    let sk = SecretKey::<V>::random().ok()?;
    let pk = sk.public_key();
    let skb = sk.expose_key().as_raw_bytes().to_vec();
    let pkb = pk.expose_key().as_raw_bytes().to_vec();
    let pks: Key<V, PkePublic> = KeyText::<V, PkePublic>::from_raw_bytes(&pkb).try_into().ok()?;
    let sks: Key<V, PkeSecret> = KeyText::<V, PkeSecret>::from_raw_bytes(&skb).try_into().ok()?;
    Some((pks, sks))
}
backend!(paseto_v2::core::V2, 16, 64, pair_from_signing::<paseto_v2::core::V2>());
backend!(paseto_v3::core::V3, 48, 96, pair_from_signing::<paseto_v3::core::V3>());
backend!(paseto_v3_aws_lc::core::V3, 48, 96, pair_from_signing::<paseto_v3_aws_lc::core::V3>());
backend!(paseto_v4::core::V4, 32, 64, pair_from_signing::<paseto_v4::core::V4>());
backend!(paseto_v4_sodium::core::V4, 32, 64, pair_from_signing::<paseto_v4_sodium::core::V4>());
fn v1_pair() -> Option<(Key<paseto_v1::core::V1, PkePublic>, Key<paseto_v1::core::V1, PkeSecret>)> {
    // RSA-4096 key generation is slow; use the key pair of the repository's own k1.seal test vector
    let repo = std::env::var("VERIF_REPO").unwrap_or_else(|_| "/repo".into());
    let txt = std::fs::read_to_string(format!("{repo}/paseto-test/tests/vectors/k1.seal.json")).ok()?;
    let v: Value = serde_json::from_str(&txt).ok()?;
    let t = &v["tests"][0];
    let sk = t["sealing-secret-key"].as_str()?;
    let pk = t["sealing-public-key"].as_str()?;
    let pks: Key<paseto_v1::core::V1, PkePublic> = KeyText::from_raw_bytes(pk.as_bytes()).try_into().ok()?;
    let sks: Key<paseto_v1::core::V1, PkeSecret> = KeyText::from_raw_bytes(sk.as_bytes()).try_into().ok()?;
    Some((pks, sks))
}
backend!(paseto_v1::core::V1, 48, 256, v1_pair());

/// C04: the operation on byte strings of the solver-identified length must not panic
/// (contents: zeros, ones, a counter pattern and seeded pseudo-random bytes)
fn arbitrary_len<V: Backend>(a: &Value) -> (bool, String) {
    let n = num(a, "n", 0) as usize;
    let op = text(a, "op").to_string();
    let mut seed = num(a, "seed", 1).wrapping_mul(0x9E3779B97F4A7C15) | 1;
    let mut contents: Vec<Vec<u8>> = vec![vec![0; n], vec![0xff; n], (0..n).map(|i| i as u8).collect()];
    for _ in 0..40 {
        contents.push((0..n).map(|_| { seed ^= seed << 13; seed ^= seed >> 7; seed ^= seed << 17; seed as u8 }).collect());
    }
    let kb = [7u8; 32];
    for c in contents {
        let r = catch_unwind(AssertUnwindSafe(|| {
            let mut p = c.clone();
            match op.as_str() {
                "local" => { let k = <V as HasKey<Local>>::decode(&kb).unwrap(); let _ = <V as paseto_core::version::UnsealingVersion<Local>>::unseal(&k, "", &mut p, b"f", b""); }
                "public" => { if let Ok(sk) = SecretKey::<V>::random() { let pk = sk.public_key(); let t = format!("{}", pk); let _ = t; let pkb = pk.expose_key().as_raw_bytes().to_vec(); let k = <V as HasKey<Public>>::decode(&pkb).unwrap(); let _ = <V as paseto_core::version::UnsealingVersion<Public>>::unseal(&k, "", &mut p, b"f", b""); } }
                "pie" => { let k = <V as HasKey<Local>>::decode(&kb).unwrap(); let _ = V::pie_unwrap_key(".local-wrap.pie.", &k, &mut p); }
                "pw" => { let _ = V::get_params(&p); let _ = V::pw_unwrap_key(".local-pw.", b"x", &mut p); }
                "pke" => { if let Some((_, sk)) = V::pke_pair() { let s = format!("x"); let _ = s; let _ = <V as PkeUnsealingVersion>::unseal_key(&sk_inner(&sk), p.into_boxed_slice()); } }
                _ => {}
            }
        }));
        if r.is_err() {
            return (true, format!("CONDITION panic\n{op} on a {n}-byte input panicked"));
        }
    }
    (false, "no panic".into())
}
/// C04: a password-wrapped blob whose parameter block is the solver's (remaining bytes arbitrary)
/// must make get_params / unwrap return Ok or Err, never panic
fn pw_params<V: Backend>(a: &Value) -> (bool, String) {
    let pb = bytes(a, "params");
    let off = num(a, "off", 16) as usize;
    let total = num(a, "len", 92) as usize;
    let mut blob = vec![0x42u8; total];
    for (i, b) in pb.iter().enumerate() {
        if off + i < total {
            blob[off + i] = *b;
        }
    }
    let whole = bytes(a, "blob");
    if !whole.is_empty() {
        blob = whole;
    }
    // The engine (CBMC) reads the two 32-bit big-endian fields of the zerocopy parameter struct
    // byte-swapped when the struct is obtained by a pointer cast (DESIGN.md 7.2), so the solver's blob
    // is offered as it is and with those two fields (bytes 24..28 and 28..32) reversed: what counts is
    // whether the REAL code panics on a concrete blob.
    let mut variants = vec![blob.clone()];
    if blob.len() >= 32 {
        let mut b = blob.clone();
        b[24..28].reverse();
        b[28..32].reverse();
        variants.push(b);
    }
    for (i, blob) in variants.iter().enumerate() {
        let r = catch_unwind(AssertUnwindSafe(|| {
            let _ = V::get_params(blob);
            let mut b2 = blob.clone();
            let _ = V::pw_unwrap_key(".local-pw.", b"pw", &mut b2);
        }));
        if r.is_err() {
            return (true, format!("CONDITION panic\npw_unwrap_key panicked on the blob {:02x?} (parameter block {:02x?}; variant {})", blob, &blob[16.min(blob.len())..32.min(blob.len())], i));
        }
    }
    (false, "no panic".into())
}
fn sk_inner<V: HasKey<PkeSecret>>(k: &Key<V, PkeSecret>) -> <V as HasKey<PkeSecret>>::Key {
    <V as HasKey<PkeSecret>>::decode(k.expose_key().as_raw_bytes()).unwrap()
}

fn dispatch<V: Backend>(recipe: &str, a: &Value, vh: &str, kh: &str) -> (bool, String) {
    let _ = kh;
    match recipe {
        "arbitrary_len" => arbitrary_len::<V>(a),
        "pw_params" => pw_params::<V>(a),
        #[cfg(getrandom_backend = "custom")]
        "rng_fail" => rng_fail::<V>(a),
        "local_roundtrip" => local_roundtrip::<V>(a),
        "public_roundtrip" => public_roundtrip::<V>(a),
        "local_tamper" => local_tamper::<V>(a, &format!("{vh}.local.")),
        "public_tamper" => public_tamper::<V>(a, &format!("{vh}.public.")),
        "pie" => {
            if text(a, "kind") == "secret" { pie::<V>(a, ".secret-wrap.pie.", ".local-wrap.pie.") } else { pie::<V>(a, ".local-wrap.pie.", ".secret-wrap.pie.") }
        }
        "pw" => {
            if text(a, "kind") == "secret" { pw::<V>(a, ".secret-pw.", ".local-pw.") } else { pw::<V>(a, ".local-pw.", ".secret-pw.") }
        }
        "pke" => pke::<V>(a),
        _ => (false, format!("unknown recipe {recipe}")),
    }
}

#[cfg(getrandom_backend = "custom")]
mod rng {
    use std::sync::atomic::{AtomicUsize, Ordering};
    pub static DRAWS: AtomicUsize = AtomicUsize::new(0);
    pub static FAIL_AT: AtomicUsize = AtomicUsize::new(usize::MAX);
    #[unsafe(no_mangle)]
    unsafe extern "Rust" fn __getrandom_v03_custom(dest: *mut u8, len: usize) -> Result<(), getrandom::Error> {
        let d = DRAWS.fetch_add(1, Ordering::SeqCst);
        if d == FAIL_AT.load(Ordering::SeqCst) {
            return Err(getrandom::Error::UNSUPPORTED);
        }
        let mut x = (d as u64 + 1).wrapping_mul(0x9E3779B97F4A7C15);
        for i in 0..len {
            x ^= x << 13;
            x ^= x >> 7;
            x ^= x << 17;
            unsafe { *dest.add(i) = x as u8 };
        }
        Ok(())
    }
}
/// C16: the OS random source fails at draw `at` of the operation; REPRODUCED if the operation still
/// returns Ok (a token / blob / key produced from default or partially filled randomness)
#[cfg(getrandom_backend = "custom")]
fn rng_fail<V: Backend>(a: &Value) -> (bool, String) {
    use std::sync::atomic::Ordering;
    let at = num(a, "at", 0) as usize;
    let op = text(a, "op").to_string();
    let key = LocalKey::<V>::from([7u8; 32]);
    let rc = if op == "pke" { V::pke_pair() } else { None };
    rng::FAIL_AT.store(rng::DRAWS.load(Ordering::SeqCst) + at, Ordering::SeqCst);
    let before = rng::DRAWS.load(Ordering::SeqCst);
    let ok = match op.as_str() {
        "local_seal" => UnsealedToken::<V, Local, Raw>::new(Raw(vec![1])).encrypt(&key).is_ok(),
        "random_local" => LocalKey::<V>::random().is_ok(),
        "random_secret" => SecretKey::<V>::random().is_ok(),
        "pie" => LocalKey::<V>::from([9u8; 32]).wrap_pie(&key).is_ok(),
        "pw" => LocalKey::<V>::from([9u8; 32]).password_wrap(b"pw").is_ok(),
        "pke" => match rc { Some((pk, _)) => LocalKey::<V>::from([9u8; 32]).seal(&pk).is_ok(), None => false },
        _ => false,
    };
    let made = rng::DRAWS.load(Ordering::SeqCst) - before;
    rng::FAIL_AT.store(usize::MAX, Ordering::SeqCst);
    if ok && made > at {
        (true, format!("CONDITION rng_failure_ignored\n{op}: draw {at} failed but the operation returned Ok"))
    } else {
        (false, format!("{op}: returned {} after {made} draws", if ok { "Ok (failing draw not reached)" } else { "Err" }))
    }
}

fn parse_any(a: &Value) -> (bool, String) {
    // every parser of every backend on the given string; then use what parsed (display, id)
    let s = text(a, "string").to_string();
    macro_rules! try_all {
        ($v:ty) => {{
            let r = catch_unwind(AssertUnwindSafe(|| {
                if let Ok(k) = s.parse::<paseto_core::PublicKey<$v>>() {
                    let _ = k.to_string();
                    let _ = k.expose_key().to_string();
                    let _ = k.id().to_string();
                }
                if let Ok(k) = s.parse::<paseto_core::SecretKey<$v>>() {
                    let _ = k.expose_key().to_string();
                    let _ = k.public_key().to_string();
                    let _ = k.id().to_string();
                }
                if let Ok(k) = s.parse::<paseto_core::LocalKey<$v>>() {
                    let _ = k.expose_key().to_string();
                    let _ = k.id().to_string();
                }
                let _ = s.parse::<paseto_core::paserk::SealedKey<$v>>().map(|k| k.to_string());
                let _ = s.parse::<paseto_core::paserk::KeyId<$v, Local>>().map(|k| k.to_string());
                let _ = s.parse::<paseto_core::paserk::PieWrappedKey<$v, Local>>().map(|k| k.to_string());
                let _ = s.parse::<paseto_core::paserk::PasswordWrappedKey<$v, Local>>().map(|k| k.to_string());
                let _ = s.parse::<SealedToken<$v, Local, Raw, Vec<u8>>>().map(|k| k.to_string());
                let _ = s.parse::<SealedToken<$v, Public, Raw, Vec<u8>>>().map(|k| k.to_string());
            }));
            if r.is_err() {
                return (true, format!("CONDITION panic\nbackend {} panicked on {:?}", stringify!($v), s));
            }
        }};
    }
    try_all!(paseto_v1::core::V1);
    try_all!(paseto_v2::core::V2);
    try_all!(paseto_v3::core::V3);
    try_all!(paseto_v3_aws_lc::core::V3);
    try_all!(paseto_v4::core::V4);
    try_all!(paseto_v4_sodium::core::V4);
    (false, "no panic".into())
}

/// C03/C07: a spec-conforming k3.local-pw blob (AES-256-CTR with a 128-bit big-endian counter, as
/// OpenSSL/aws-lc implement it) whose 16-byte CTR nonce ends in ff..ff, built here from the real
/// pbkdf2/hmac/sha2/aes/ctr crates, must unwrap to the wrapped key on every v3 backend.
fn ctr_pbkw(a: &Value) -> (bool, String) {
    use aes::cipher::{KeyIvInit, StreamCipher};
    use hmac::Mac;
    use sha2::Digest;
    let key: Vec<u8> = (0u8..32).collect();
    let pass = b"correct horse";
    let salt = [0x5au8; 32];
    let iters: u32 = 1000;
    let mut nonce = [0xffu8; 16];
    let hi = bytes(a, "iv_hi");
    for (i, b) in hi.iter().take(8).enumerate() {
        nonce[i] = *b;
    }
    let k = pbkdf2::pbkdf2_array::<hmac::Hmac<sha2::Sha384>, 32>(pass, &salt, iters).unwrap();
    let mut h = sha2::Sha384::new();
    h.update([0xFF]);
    h.update(k);
    let ek = h.finalize();
    let mut h = sha2::Sha384::new();
    h.update([0xFE]);
    h.update(k);
    let ak = h.finalize();
    let mut edk = key.clone();
    ctr::Ctr128BE::<aes::Aes256>::new(ek[..32].into(), (&nonce).into()).apply_keystream(&mut edk);
    let mut mac = hmac::Hmac::<sha2::Sha384>::new_from_slice(&ak).unwrap();
    mac.update(b"k3");
    mac.update(b".local-pw.");
    mac.update(&salt);
    mac.update(&iters.to_be_bytes());
    mac.update(&nonce);
    mac.update(&edk);
    let tag = mac.finalize().into_bytes();
    let mut blob = vec![];
    blob.extend_from_slice(&salt);
    blob.extend_from_slice(&iters.to_be_bytes());
    blob.extend_from_slice(&nonce);
    blob.extend_from_slice(&edk);
    blob.extend_from_slice(&tag);
    let mut b1 = blob.clone();
    let mut b2 = blob.clone();
    let r1 = <paseto_v3::core::V3 as PwWrapVersion>::pw_unwrap_key(".local-pw.", pass, &mut b1).map(|x| x.to_vec());
    let r2 = <paseto_v3_aws_lc::core::V3 as PwWrapVersion>::pw_unwrap_key(".local-pw.", pass, &mut b2).map(|x| x.to_vec());
    let s = format!("k3.local-pw.{}", b64e(&blob));
    match (r1, r2) {
        (Ok(x), Ok(y)) if x == key && y == key => (false, "both v3 backends unwrap the spec-conforming blob to the wrapped key".into()),
        (Ok(x), Ok(y)) => (true, format!("CONDITION ctr64\nspec-conforming {s}\n wrapped key   {:02x?}\n paseto-v3     {:02x?}\n paseto-v3-aws {:02x?}", key, x, y)),
        (x, y) => (true, format!("CONDITION ctr64\nspec-conforming {s}: paseto-v3 {:?}, aws-lc {:?}", x.is_ok(), y.is_ok())),
    }
}

/// C03: tokens signed by the independent P-384 implementation (paseto-v3-aws-lc, random k, no low-S
/// normalisation: about half of its signatures have s > n/2) are specification-conforming and must
/// verify under paseto-v3 with the same public key.  REPRODUCED if paseto-v3 rejects one.
fn cross_v3_public(a: &Value) -> (bool, String) {
    type A = paseto_v3_aws_lc::core::V3;
    type R = paseto_v3::core::V3;
    let loops = num(a, "loops", 64);
    let sk = match SecretKey::<A>::random() {
        Ok(k) => k,
        Err(e) => return (false, format!("aws-lc key generation failed: {e}")),
    };
    let pk_text = sk.public_key().to_string();
    let pk: paseto_core::PublicKey<R> = match pk_text.parse() {
        Ok(k) => k,
        Err(e) => return (true, format!("CONDITION key_rejected\npaseto-v3 rejects the public key {pk_text}: {e}")),
    };
    let mut signed = 0;
    for i in 0..loops {
        let tok = UnsealedToken::<A, Public, Raw>::new(Raw(vec![i as u8, 1, 2])).with_footer(b"f".to_vec());
        let sealed = match tok.sign_with_aad(&sk, b"a") {
            Ok(s) => s,
            Err(_) => continue, // aws-lc signing failure is C01's subject, not this recipe's
        };
        signed += 1;
        let s = sealed.to_string();
        let parsed: SealedToken<R, Public, Raw, Vec<u8>> = match s.parse() {
            Ok(p) => p,
            Err(e) => return (true, format!("CONDITION parse_err\npaseto-v3 does not parse {s}: {e}")),
        };
        if let Err(e) = parsed.verify_with_aad(&pk, b"a", &nv()) {
            return (true, format!("CONDITION sibling_rejected\npaseto-v3 rejected token {i} signed by paseto-v3-aws-lc for the same key: {e}\n{s}"));
        }
    }
    (false, format!("paseto-v3 verified all {signed} tokens signed by paseto-v3-aws-lc"))
}

fn main() {
    let recipe = std::env::args().nth(1).unwrap_or_default();
    let mut inp = String::new();
    std::io::stdin().read_to_string(&mut inp).unwrap();
    let a: Value = serde_json::from_str(&inp).unwrap_or(Value::Null);
    std::panic::set_hook(Box::new(|_| {}));
    let r = catch_unwind(AssertUnwindSafe(|| {
        if recipe == "parse_any" {
            return parse_any(&a);
        }
        if recipe == "ctr_pbkw" {
            return ctr_pbkw(&a);
        }
        if recipe == "cross_v3_public" {
            return cross_v3_public(&a);
        }
        match text(&a, "backend") {
            "v1" => dispatch::<paseto_v1::core::V1>(&recipe, &a, "v1", "k1"),
            "v2" => dispatch::<paseto_v2::core::V2>(&recipe, &a, "v2", "k2"),
            "v3" => dispatch::<paseto_v3::core::V3>(&recipe, &a, "v3", "k3"),
            "v3-aws-lc" => dispatch::<paseto_v3_aws_lc::core::V3>(&recipe, &a, "v3", "k3"),
            "v4" => dispatch::<paseto_v4::core::V4>(&recipe, &a, "v4", "k4"),
            "v4-sodium" => dispatch::<paseto_v4_sodium::core::V4>(&recipe, &a, "v4", "k4"),
            b => (false, format!("unknown backend {b}")),
        }
    }));
    match r {
        Ok((true, msg)) => println!("{msg}\nREPRODUCED"),
        Ok((false, msg)) => println!("{msg}\nNOT-REPRODUCED"),
        Err(_) => println!("CONDITION panic\nthe real code panicked\nREPRODUCED"),
    }
}
