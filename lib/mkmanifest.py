"""Regenerate MANIFEST.json from lib/specs.py (claimed properties) + the not-applicable list."""
import json, os, sys
sys.path.insert(0, os.path.dirname(os.path.abspath(__file__)))
import specs

ROOT = os.path.dirname(os.path.dirname(os.path.abspath(__file__)))
NA = {
    "C17": "concurrency: Kani/CBMC do not model threads and the shared state in question lives in C objects behind FFI; a bounded sequential harness would not address the quantifier (all interleavings) — solver-based checking of the real code cannot apply (DESIGN.md §4 C17)",
    "C18": "compile-time rejection of programs by rustc's type/trait checker is not a statement about any execution of the library; there is nothing to execute symbolically (DESIGN.md §4 C18)",
}
PENDING = {}
PARTIAL = {
    "C03": " PARTIAL CLAIM: decided for paseto-v4 local (full primitive-call transcript), the AES-CTR counter width of paseto-v3/v1 over the real ctr crate, and ECDSA twin acceptance in paseto-v3; the other backends' transcripts are not built (DESIGN.md 7.5).",
    "C07": " PARTIAL CLAIM: decided for the AES-CTR counter width of the paseto-v3/v1 PIE path; the remaining PASERK transcripts are not built (DESIGN.md 7.5).",
    "C14": " PARTIAL CLAIM at the serde data-model level (hand-written Serialize and visitor); JSON text and RFC 3339 text belong to serde_json and jiff (DESIGN.md 7.5).",
    "C01": " paseto-v3-aws-lc: local tokens and the sealing side of public tokens only; paseto-v1 public (RSA) is not modelled (DESIGN.md 7.6).",
    "C02": " paseto-v3-aws-lc public tokens and paseto-v1 public tokens are outside the claim (DESIGN.md 7.6).",
}
LEVEL_TEXT = {
    "C09": "bounded model checking of the repository's own base64.rs and FromStr/Display code by CBMC: the L0 kernels for every value of their argument types (no bound), decode/encode for every string of each stated length; a pass covers all inputs inside the bound, which sampling cannot give",
    "C19": "SAT over the real cfg guards: the feature flags are the symbolic variables, z3 decides whether any closed feature set leaves a referenced item configured out, models are replayed with cargo check, and every distinct closed set is enumerated by the solver and built",
}
DEFAULT_TEXT = "bounded model checking (Kani -> CBMC -> CaDiCaL) of the real paseto-rs code: inputs (keys, RNG output, messages, footers, assertions, corruptions, strings) are symbolic inside stated size bounds, leaf crypto primitives are ideal-function models, every harness carries reachability witnesses and unwinding assertions; counterexamples are replayed natively against the real crates before being reported"


def main():
    props = [json.loads(l) for l in open(os.path.join(ROOT, "properties.jsonl"))]
    claimed = set(a for a in sys.argv[1:]) if len(sys.argv) > 1 else set(specs.PROPS)
    checks, na = [], []
    for p in props:
        pid = p["id"]
        if pid in specs.PROPS and pid in claimed:
            P = specs.PROPS[pid]
            checks.append({
                "property_id": pid,
                "quick_cmd": "./check %s --tier quick" % pid,
                "thorough_cmd": "./check %s --tier thorough" % pid,
                "evidence_file": "/verif/evidence/%s.json" % pid,
                "replay_cmd_template": "./check %s --replay {path}" % pid,
                "engine": "kani-cbmc" if P.level != "other" else "z3-cfg",
                "level_claimed": {"category": P.level, "text": LEVEL_TEXT.get(pid, DEFAULT_TEXT) + PARTIAL.get(pid, ""), "design_ref": "DESIGN.md §4 %s, §7.5" % pid},
                "level_note": "; ".join(P.assumptions)[:900],
                "technique": "solver-based checking of the real code: Kani/CBMC bounded model checking with symbolic inputs over ideal-primitive model crates, native replay of counterexamples" if P.level != "other"
                else "solver-based checking: z3 SAT query over feature flags extracted from the real Cargo.toml/#[cfg] guards, cargo check replay",
            })
        else:
            reason = NA.get(pid) or PENDING.get(pid) or "not claimed"
            na.append({"property_id": pid, "reason": reason})
    m = {
        "version": 1,
        "setup_cmd": "./setup.sh",
        "hooks": {"guard": "kani", "enable": "no hooks: harness crates use path dependencies on /repo and cfg(kani) only inside /verif",
                  "baseline_off_cmd": "cd /repo && cargo test --workspace --no-fail-fast --offline", "source_commits": [], "add_only": True},
        "engines": [
            {"name": "kani-cbmc", "path": "/verif/lib/kanirun.py", "serves_properties": sorted(c["property_id"] for c in checks if c["engine"] == "kani-cbmc"),
             "kind_free_text": "Kani 0.68 / CBMC 6.11 / CaDiCaL bounded model checker over /repo's sources + /verif/models ideal-primitive crates"},
            {"name": "z3-cfg", "path": "/verif/lib/c19.py", "serves_properties": ["C19"], "kind_free_text": "z3 (cvc5 cross-check) over feature flags and cfg guards"},
        ],
        "checks": checks,
        "not_applicable": na,
        "notes": "All checks rebuild from /repo's working tree (path dependencies / source copies made at run time). Exit 0 pass, 1 VIOLATION (replayed natively), 2 inconclusive (timeout, OOM, vacuity, unwinding, non-reproducing counterexample, harness crate that no longer builds against the model crates). thorough = quick + thorough-only harnesses with a recorded pass (lib/validated.json); DESIGN.md 7.10. Findings repaired by fix: commits are listed in known_findings.json; seeded changes and what catches them in seeded/RESULTS.md.",
    }
    json.dump(m, open(os.path.join(ROOT, "MANIFEST.json"), "w"), indent=1)
    print("claimed:", [c["property_id"] for c in checks])


if __name__ == "__main__":
    main()
