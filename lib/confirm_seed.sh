#!/bin/bash
# usage: confirm_seed.sh <id>   (expects /tmp/seed-<id>/{patch.diff,demo_<id>.rs})
# confirms independently: demo passes without the patch, fails with it; existing suite passes with it.
id=$1
export CARGO_NET_OFFLINE=true CARGO_TARGET_DIR=/tmp/seed-target
W=/tmp/cw-$id
git -C /repo worktree remove --force $W 2>/dev/null
git -C /repo worktree add -q $W HEAD || exit 3
cp /tmp/seed-$id/demo_$id.rs $W/paseto-test/tests/
cd $W
echo "--- demo without patch"; cargo test --offline -p paseto-test --test demo_$id 2>&1 | grep -E "^test result|error(\[|:)" | head -5
git apply /tmp/seed-$id/patch.diff || { echo "PATCH DOES NOT APPLY"; exit 4; }
echo "--- demo with patch"; cargo test --offline -p paseto-test --test demo_$id 2>&1 | grep -E "^test result|error(\[|:)" | head -5
rm paseto-test/tests/demo_$id.rs
echo "--- suite with patch"; cargo test --workspace --no-fail-fast --offline 2>&1 | grep -E "^test result: F|FAILED|panicked|error(\[|:)" | head -10; echo "suite done rc=$?"
cd /; git -C /repo worktree remove --force $W
