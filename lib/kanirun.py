"""Run Kani harnesses as separate processes, parse what CBMC reported.

One job = one `cargo kani --harness <fq name> --exact` process with its own copy of the group's
warmed target directory, under `timeout` and `ulimit -v`.  (Measured on this image: Kani's own
`-j` mode made each harness ~10x slower; a shared target dir serialises every per-harness
recompile on the cargo lock.)
"""
import os, re, shutil, subprocess, sys, time, json, threading, hashlib
from concurrent.futures import ThreadPoolExecutor

VERIF = os.path.dirname(os.path.dirname(os.path.abspath(__file__)))
REPO = os.environ.get("VERIF_REPO", "/repo")
BUILD = os.environ.get("VERIF_BUILD", os.path.join(VERIF, ".build"))

LEAN_FLAGS = ["--no-memory-safety-checks", "--no-overflow-checks", "--no-assertion-reach-checks"]

ENV = dict(os.environ)
ENV["CARGO_NET_OFFLINE"] = "true"
ENV.pop("RUSTFLAGS", None)
ENV.pop("RUSTUP_TOOLCHAIN", None)

_print_lock = threading.Lock()


def log(msg):
    with _print_lock:
        sys.stderr.write(msg + "\n")
        sys.stderr.flush()


def sh(cmd, cwd=None, timeout=None, env=None):
    p = subprocess.run(cmd, cwd=cwd, env=env or ENV, stdout=subprocess.PIPE, stderr=subprocess.STDOUT,
                       timeout=timeout, text=True, errors="replace")
    return p.returncode, p.stdout


def git_blob(path):
    try:
        return subprocess.check_output(["git", "hash-object", path], text=True).strip()
    except Exception:
        return None


class Group:
    """A harness crate. `materialize` regenerates it from /verif/harness/<name> and /repo's working tree."""

    def __init__(self, name, gen=None, stubbing=False):
        self.name = name
        self.src = os.path.join(VERIF, "harness", name)
        self.dir = os.path.join(BUILD, name)
        self.gen = gen
        self.stubbing = stubbing
        self.materialized = False
        self.warm = False
        self.lock = threading.Lock()
        self.encoded_files = []  # (path under /repo, git blob id) compiled into this group

    def materialize(self):
        with self.lock:
            if self.materialized:
                return
            os.makedirs(self.dir, exist_ok=True)
            for sub in ("src", "gen"):
                d = os.path.join(self.dir, sub)
                if os.path.isdir(d):
                    shutil.rmtree(d)
            shutil.copytree(os.path.join(self.src, "src"), os.path.join(self.dir, "src"))
            os.makedirs(os.path.join(self.dir, "gen"), exist_ok=True)
            t = open(os.path.join(self.src, "Cargo.toml.in")).read()
            t = t.replace("@REPO@", REPO).replace("@VERIF@", VERIF)
            _write_if_changed(os.path.join(self.dir, "Cargo.toml"), t)
            lock_src = os.path.join(self.src, "Cargo.lock")
            if not os.path.exists(lock_src):
                lock_src = os.path.join(REPO, "Cargo.lock")
            if not os.path.exists(os.path.join(self.dir, "Cargo.lock")):
                shutil.copy(lock_src, os.path.join(self.dir, "Cargo.lock"))
            if self.gen:
                self.gen(self)
            self.materialized = True

    def unit_copy(self, repo_rel, proofs_rel, out_name, prelude=""):
        """gen/<out_name> = prelude + current /repo/<repo_rel> + /verif/harness/<group>/<proofs_rel>"""
        src = os.path.join(REPO, repo_rel)
        body = open(src).read()
        proofs = open(os.path.join(self.src, proofs_rel)).read()
        with open(os.path.join(self.dir, "gen", out_name), "w") as f:
            f.write(prelude + body + "\n" + proofs)
        self.encoded_files.append((repo_rel, git_blob(src)))

    def note_repo_files(self, rels):
        for r in rels:
            p = os.path.join(REPO, r)
            if os.path.exists(p):
                self.encoded_files.append((r, git_blob(p)))

    def base_target(self):
        return os.path.join(self.dir, "target-base")

    def ensure_warm(self, first_harness, extra_flags):
        """Compile the dependencies once into target-base (kept between runs; cargo's own
        fingerprints decide what has to be rebuilt when /repo changed)."""
        with self.lock:
            if self.warm:
                return None
            cmd = ["cargo", "kani", "--only-codegen", "--harness", first_harness, "--exact",
                   "--target-dir", self.base_target()] + extra_flags
            t0 = time.time()
            rc, out = sh(cmd, cwd=self.dir, timeout=1800)
            self.warm = True
            self.warm_s = time.time() - t0
            if rc != 0:
                self.warm_error = out
                return out
            return None


def _write_if_changed(path, text):
    if os.path.exists(path) and open(path).read() == text:
        return
    with open(path, "w") as f:
        f.write(text)


RE_SUMMARY = re.compile(r"\*\* (\d+) of (\d+) failed(?: \((.*?)\))?")
RE_COVER = re.compile(r"\*\* (\d+) of (\d+) cover properties satisfied(?: \((.*?)\))?")
RE_TIME = re.compile(r"Verification Time: ([0-9.]+)s")
RE_SYMEX = re.compile(r"Runtime Symex: ([0-9.e+-]+)s")
RE_DEC = re.compile(r"Runtime decision procedure: ([0-9.e+-]+)s")
RE_STEPS = re.compile(r"size of program expression: (\d+) steps")
RE_VCC = re.compile(r"Generated (\d+) VCC\(s\), (\d+) remaining after simplification")
RE_VARS = re.compile(r"(\d+) variables, (\d+) clauses")
RE_CHECK = re.compile(r"^Check (\d+): (.+)\n\t - Status: (\S+)\n\t - Description: \"(.*)\"\n(?:\t - Location: (.*)\n)?", re.M)


def parse_output(out):
    r = {"verdict": None, "checks_total": 0, "checks_failed": 0, "unreachable": 0,
         "covers_total": 0, "covers_sat": 0, "failed": [], "unsat_covers": [],
         "symex_s": 0.0, "solver_s": 0.0, "steps": 0, "vccs": 0, "vccs_remaining": 0,
         "sat_vars": 0, "sat_clauses": 0, "solver_calls": 0, "verification_s": None, "stubs": []}
    if "VERIFICATION:- SUCCESSFUL" in out:
        r["verdict"] = "SUCCESSFUL"
    elif "VERIFICATION:- FAILED" in out:
        r["verdict"] = "FAILED"
    m = RE_SUMMARY.search(out)
    if m:
        r["checks_failed"], r["checks_total"] = int(m.group(1)), int(m.group(2))
        if m.group(3):
            mm = re.search(r"(\d+) unreachable", m.group(3))
            if mm:
                r["unreachable"] = int(mm.group(1))
    m = RE_COVER.search(out)
    if m:
        r["covers_sat"], r["covers_total"] = int(m.group(1)), int(m.group(2))
    for m in RE_CHECK.finditer(out):
        _, name, status, desc, loc = m.groups()
        if ".cover." in name:
            if status != "SATISFIED":
                r["unsat_covers"].append({"name": name, "status": status, "desc": desc, "loc": loc})
        elif status not in ("SUCCESS", "UNREACHABLE"):
            r["failed"].append({"name": name, "status": status, "desc": desc, "loc": loc or ""})
    r["symex_s"] = sum(float(x) for x in RE_SYMEX.findall(out))
    dec = RE_DEC.findall(out)
    r["solver_s"] = sum(float(x) for x in dec)
    r["solver_calls"] = len(dec)
    for m in RE_STEPS.finditer(out):
        r["steps"] += int(m.group(1))
    for m in RE_VCC.finditer(out):
        r["vccs"] += int(m.group(1))
        r["vccs_remaining"] += int(m.group(2))
    vs = RE_VARS.findall(out)
    if vs:
        r["sat_vars"] = max(int(a) for a, _ in vs)
        r["sat_clauses"] = max(int(b) for _, b in vs)
    m = RE_TIME.search(out)
    if m:
        r["verification_s"] = float(m.group(1))
    r["stubs"] = re.findall(r"- Stub: (.*)", out)
    r["status_error"] = "Status: ERROR" in out or "CBMC failed" in out or "out of memory" in out.lower()
    # Kani prints one concrete playback test per failed check and per satisfied cover, in no documented
    # order and without saying which is which: all of them are kept, the replay tries each
    allv = []
    for m in re.finditer(r"Concrete playback unit test for `.*?`:\n```\n(.*?)```", out, re.S):
        vals = []
        for vm in re.finditer(r"^\s*vec!\[([0-9, ]*)\],?\s*$", m.group(1), re.M):
            s = vm.group(1).strip()
            vals.append([int(x) for x in s.split(",") if x.strip()] if s else [])
        if "playback_src" not in r:
            r["playback_src"] = m.group(1)
        r.setdefault("playback_srcs", [])
        if vals not in allv:
            allv.append(vals)
            r["playback_srcs"].append(m.group(1))
    if allv:
        r["playback_vals"] = allv[0]
        r["playback_all"] = allv
    return r


def _is_alloc_shim(f):
    loc = f.get("loc") or ""
    return ("kani_lib.c" in loc and ("__rust_realloc" in loc or "__rust_dealloc" in loc or "__rust_alloc" in loc)) or "<builtin-library-" in loc


def classify(res):
    """-> one of: pass, violation (property/default check failed), unwind, vacuous, error"""
    if res.get("timed_out"):
        return "timeout"
    if res.get("mode") == "lean" and res.get("failed"):
        # Lean mode = memory-safety instrumentation off.  The preconditions inside Kani's C allocation
        # shims (kani_lib.c __rust_realloc/__rust_dealloc) and CBMC's builtin memcpy/free cannot be
        # switched off and raise spurious failures on Vec growth inside large harnesses (isolated, the
        # same code passes them; see DESIGN.md §7).  They are memory-model checks, so in lean mode they
        # are recorded but not counted; C04 harnesses run in full mode where they do count.
        shim = [f for f in res["failed"] if _is_alloc_shim(f)]
        if shim:
            res["ignored_memory_model_checks"] = [f["desc"] + " @ " + f["loc"] for f in shim]
            res["failed"] = [f for f in res["failed"] if not _is_alloc_shim(f)]
            res["checks_failed"] = len(res["failed"])
            if not res["failed"] and res["verdict"] == "FAILED" and not res.get("status_error"):
                res["verdict"] = "SUCCESSFUL"
    if res["verdict"] is None or res.get("status_error") and res["verdict"] != "SUCCESSFUL":
        return "error"
    for f in res["failed"]:
        if "unwinding assertion" in f["desc"]:
            return "unwind"
    if res["verdict"] == "FAILED":
        if not res["failed"]:
            return "error"
        return "violation"
    if res["covers_total"] != res["covers_sat"] or res["unsat_covers"]:
        return "vacuous"
    return "pass"


def run_job(group, harness, mode="full", timeout_s=600, mem_gb=12, unwind=None, playback=False, keep=False, fs=None,
            extra=None):
    """Run one harness; returns a result dict."""
    group.materialize()
    flags = []
    if group.stubbing:
        flags += ["-Z", "stubbing"]
    err = group.ensure_warm(harness, flags)
    if err is not None and getattr(group, "warm_error", None):
        return {"harness": harness, "group": group.name, "class": "error", "verdict": None,
                "log_tail": group.warm_error[-4000:], "wall_s": 0, "failed": [], "checks_total": 0,
                "covers_total": 0, "covers_sat": 0, "steps": 0, "vccs": 0, "symex_s": 0, "solver_s": 0,
                "solver_calls": 0, "checks_failed": 0, "unsat_covers": [], "stubs": []}
    tag = hashlib.sha1((harness + mode + str(playback)).encode()).hexdigest()[:10]
    tdir = os.path.join(group.dir, "target-" + tag)
    if os.path.isdir(tdir):
        shutil.rmtree(tdir, ignore_errors=True)
    shutil.copytree(group.base_target(), tdir, symlinks=True)
    cmd = ["cargo", "kani", "--harness", harness, "--exact", "--target-dir", tdir] + flags
    if mode == "lean":
        cmd += LEAN_FLAGS
    elif mode == "nomem":
        cmd += ["--no-memory-safety-checks"]
    if unwind:
        cmd += ["--default-unwind", str(unwind)]
    if playback:
        cmd += ["-Z", "concrete-playback", "--concrete-playback=print"]
    if extra:
        cmd += extra
    fs = os.environ.get("VERIF_FS", "") or fs or ""
    if fs:
        # CBMC expands arrays of up to 64 elements into one SSA symbol per element; the models' byte
        # arrays (keys, tags, transcripts, oracle table) make every state merge touch thousands of
        # symbols.  A smaller limit keeps them as arrays (same semantics, different encoding).
        cmd += ["-Z", "unstable-options", "--cbmc-args", "--max-field-sensitivity-array-size", str(fs)]
    wrapped = ["bash", "-c", "ulimit -v %d; exec timeout -k 10 %d \"$@\"" % (int(mem_gb * 1024 * 1024), int(timeout_s)),
               "job"] + cmd
    t0 = time.time()
    try:
        rc, out = sh(wrapped, cwd=group.dir, timeout=timeout_s + 60)
    except subprocess.TimeoutExpired as e:
        rc, out = 124, (e.stdout or "") if isinstance(e.stdout, str) else ""
    wall = time.time() - t0
    res = parse_output(out)
    res.update({"harness": harness, "group": group.name, "rc": rc, "wall_s": round(wall, 2), "mode": mode,
                "timed_out": rc in (124, 137), "cmd": " ".join(cmd)})
    res["class"] = classify(res)
    if res["class"] != "pass":
        res["log_tail"] = out[-6000:]
        logdir = os.path.join(BUILD, "logs")
        os.makedirs(logdir, exist_ok=True)
        with open(os.path.join(logdir, group.name + "__" + harness.replace("::", ".") + ".log"), "w") as f:
            f.write(out)
    if not keep:
        shutil.rmtree(tdir, ignore_errors=True)
    log("  [%s] %-60s %-9s %6.1fs  checks=%d covers=%d/%d" % (
        group.name, harness.split("::")[-1], res["class"], wall, res["checks_total"], res["covers_sat"],
        res["covers_total"]))
    return res


class _MemGate:
    """admit a job only while the sum of the declared memory caps of running jobs fits the budget"""

    def __init__(self, budget_gb):
        self.budget = budget_gb
        self.used = 0.0
        self.cv = threading.Condition()

    def acquire(self, gb):
        gb = min(gb, self.budget)
        with self.cv:
            while self.used + gb > self.budget:
                self.cv.wait()
            self.used += gb

    def release(self, gb):
        gb = min(gb, self.budget)
        with self.cv:
            self.used -= gb
            self.cv.notify_all()


_gate = _MemGate(float(os.environ.get("VERIF_MEM_GB", "52")))


def _gated(j):
    gb = j.get("mem_gb", 12) * 0.5  # caps are rarely reached (typical 1-5 GB): budget half of each
    _gate.acquire(gb)
    try:
        return run_job(**j)
    finally:
        _gate.release(gb)


def run_jobs(jobs, workers=None):
    """jobs: list of dict(group=Group, harness=str, **kw). Heaviest first."""
    workers = workers or int(os.environ.get("VERIF_JOBS", "14"))
    jobs = sorted(jobs, key=lambda j: -j.get("timeout_s", 600))
    # warm each group serially first (compiles dependencies once)
    seen = set()
    for j in jobs:
        g = j["group"]
        if g.name not in seen:
            seen.add(g.name)
            g.materialize()
            flags = ["-Z", "stubbing"] if g.stubbing else []
            g.ensure_warm(j["harness"], flags)
    with ThreadPoolExecutor(max_workers=workers) as ex:
        futs = [ex.submit(_gated, j) for j in jobs]
        return [f.result() for f in futs]
