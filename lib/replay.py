"""Counterexample replay: nothing is reported as a VIOLATION unless it reproduces natively.

kind 'playback' (L0/L1/L3 harnesses, where every line executed is /repo's own code or the harness):
    Kani's concrete playback turns the solver's assignment into a #[test]; it is compiled natively
    (no CBMC) and must fail.
kind 'native:<recipe>' (L2 harnesses over model crates): the solver's values for the declared input
    schema (key, message, footer, assertion, position, ...) are handed to /verif/replay (a native
    program linked against the REAL crates of /repo) which re-runs the scenario with real crypto.
"""
import json, os, re, shutil, subprocess, time
import kanirun

ROOT = kanirun.VERIF
OUT = os.path.join(ROOT, "out", "replay")


def _save(prop, r, payload):
    os.makedirs(OUT, exist_ok=True)
    p = os.path.join(OUT, "%s-%s-%s.json" % (prop, r.get("group", "x"), r["harness"].replace("::", ".")))
    payload = dict(payload)
    payload.update({"property": prop, "harness": r["harness"], "group": r["group"],
                    "failed_checks": r.get("failed", [])[:10], "saved_at": time.strftime("%Y-%m-%dT%H:%M:%SZ", time.gmtime())})
    with open(p, "w") as f:
        json.dump(payload, f, indent=1)
    return p


def _values_by_schema(schema, vals):
    """schema: list of (name, kind) with kind in u8,u16,u32,u64,usize,bool,bytes:N ; vals: playback vectors in draw order"""
    out, i = {}, 0
    for name, kind in schema:
        if kind.startswith("bytes:"):
            n = int(kind.split(":")[1])
            chunk = vals[i:i + n]
            if len(chunk) < n:
                return None
            out[name] = [c[0] if c else 0 for c in chunk]
            i += n
        else:
            if i >= len(vals):
                return None
            out[name] = int.from_bytes(bytes(vals[i]), "little")
            i += 1
    return out


def playback(prop, r, group):
    """Kani concrete playback, out of place.  The failing harness is re-run with
    --concrete-playback=print; every printed unit test (one per failed check and per satisfied cover)
    is put into a `#[cfg(test)] mod verif_playback` appended to the build copy's lib.rs, calling the
    harness by its crate path, and executed natively with `cargo kani playback`.  (Kani's own
    `inplace` mode inserts the test at the harness's source location, which for macro-generated
    harnesses is the macro definition: every expansion then defines the same test and the crate no
    longer compiles.)  The counterexample reproduces if at least one of the tests fails natively."""
    spec = r["spec"]
    # with --concrete-playback CBMC produces a trace per property: a harness with ~700 default checks costs
    # ~700 solver calls and a very large trace output.  When what failed is an assert!/assertion of the harness
    # or the library (not one of Kani's default checks), the re-run drops the default checks.
    only_asserts = bool(r.get("failed")) and all(".assertion." in (f.get("name") or "") for f in r["failed"])
    mode = "lean" if only_asserts else spec.mode
    res = kanirun.run_job(group, r["harness"], mode=mode, timeout_s=spec.timeout * 3, mem_gb=max(spec.mem + 6, 44), fs=spec.fs,
                          playback=True)
    if not res.get("playback_srcs") and mode != spec.mode:
        res = kanirun.run_job(group, r["harness"], mode=spec.mode, timeout_s=spec.timeout * 3, mem_gb=max(spec.mem + 6, 44), fs=spec.fs,
                              playback=True)
    srcs = res.get("playback_srcs") or []
    if not srcs:
        return {"reproduced": False, "detail": "Kani produced no concrete playback test (class=%s)" % res["class"], "path": None}
    fq = "crate::" + r["harness"]
    bare = r["harness"].split("::")[-1]
    tests, body = [], []
    for i, src in enumerate(srcs):
        m = re.search(r"fn (kani_concrete_playback_\w+)\(\)", src)
        if not m:
            continue
        name = "%s_v%d" % (m.group(1), i)
        # keep the test function only: Kani's doc comment above it quotes the check's message, which
        # may span several lines without a `///` prefix
        k = src.find("#[test]")
        what = " ".join(l.strip().lstrip("/").strip() for l in src[:k].splitlines() if "Check for" in l)
        src = "// %s\n%s" % (what.replace("\n", " ")[:200], src[k:])
        t = src.replace(m.group(1) + "()", name + "()")
        t = re.sub(r"kani::concrete_playback_run\(\s*concrete_vals\s*,\s*%s\s*\)" % re.escape(bare), "kani::concrete_playback_run(concrete_vals, %s)" % fq, t)
        tests.append(name)
        body.append(t)
    if not tests:
        return {"reproduced": False, "detail": "could not parse Kani's playback tests", "path": None}
    lib = os.path.join(group.dir, "src", "lib.rs")
    orig = open(lib).read()
    outs, reproduced = {}, True
    try:
        with open(lib, "w") as f:
            f.write(orig + "\n#[cfg(test)]\nmod verif_playback {\n" + "\n".join(body) + "\n}\n")
        env = dict(kanirun.ENV)
        env["CARGO_TARGET_DIR"] = os.path.join(group.dir, "target-playback")
        for prof, extra_env in (("dev", {}), ("release-like", {"CARGO_PROFILE_DEV_OPT_LEVEL": "3",
                                                                "CARGO_PROFILE_DEV_DEBUG_ASSERTIONS": "false",
                                                                "CARGO_PROFILE_DEV_OVERFLOW_CHECKS": "false"})):
            e = dict(env)
            e.update(extra_env)
            rc, out = kanirun.sh(["cargo", "kani", "playback", "-Z", "concrete-playback", "--", "verif_playback"], cwd=group.dir,
                                 timeout=1800, env=e)
            ran = "test result:" in out
            failed = ran and ("test result: FAILED" in out)
            outs[prof] = {"rc": rc, "ran": ran, "test_failed": failed, "tail": out[-1500:]}
            if prof == "dev" and not failed:
                reproduced = False
        shutil.rmtree(env["CARGO_TARGET_DIR"], ignore_errors=True)
    finally:
        with open(lib, "w") as f:
            f.write(orig)
    path = _save(prop, r, {"kind": "playback", "tests": tests, "test_source": "\n".join(body)[:20000], "native_runs": outs,
                           "how_to_rerun": "./check %s --replay <this file>" % prop})
    if not outs.get("dev", {}).get("ran"):
        detail = "the playback tests did not build or run natively: " + outs.get("dev", {}).get("tail", "")[-300:]
    else:
        detail = "native playback of %d test(s): %s" % (len(tests), "FAILED as the solver predicted" if reproduced else "passed (did not reproduce)")
    return {"reproduced": reproduced, "path": path, "detail": detail}


def native(prop, r, group, recipe, seed):
    spec = r["spec"]
    if spec.schema:
        res = kanirun.run_job(group, r["harness"], mode=spec.mode, timeout_s=spec.timeout * 2, mem_gb=spec.mem, fs=spec.fs,
                              playback=True)
        allv = res.get("playback_all") or []
        if not allv:
            return {"reproduced": False, "detail": "no concrete values from Kani (class=%s)" % res["class"], "path": None}
        tried, ok, out, cond, args = [], False, "", None, None
        for vals in allv:
            a = _values_by_schema(spec.schema, vals)
            if a is None:
                continue
            a.update(spec.replay_args or {})
            a["seed"] = seed
            a["failed"] = [f["desc"] for f in r.get("failed", [])][:5]
            ok, out, cond = run_recipe(recipe, a)
            tried.append({"args": a, "reproduced": ok})
            args = a
            if ok:
                break
        if args is None:
            return {"reproduced": False, "detail": "playback values do not fit the input schema", "path": None}
        path = _save(prop, r, {"kind": "native", "recipe": recipe, "args": args, "native_output": out[-3000:],
                               "vectors_tried": len(tried), "vectors_total": len(allv)})
        return {"reproduced": ok, "path": path, "detail": out.strip().splitlines()[-1] if out.strip() else "", "condition": cond}
    else:
        args = {}
    args.update(spec.replay_args or {})
    args["seed"] = seed
    args["failed"] = [f["desc"] for f in r.get("failed", [])][:5]
    ok, out, cond = run_recipe(recipe, args)
    path = _save(prop, r, {"kind": "native", "recipe": recipe, "args": args, "native_output": out[-3000:]})
    return {"reproduced": ok, "path": path, "detail": out.strip().splitlines()[-1] if out.strip() else "", "condition": cond}


_replay_built = {}


def replay_bin(flavour="std"):
    """flavour 'std': real crates as they are.  flavour 'rng': same sources built with
    --cfg getrandom_backend="custom" and a failure-injecting __getrandom_v03_custom (C16)."""
    d = os.path.join(kanirun.BUILD, "replay-" + flavour)
    os.makedirs(d, exist_ok=True)
    src = os.path.join(ROOT, "replay")
    if flavour not in _replay_built:
        if os.path.isdir(os.path.join(d, "src")):
            shutil.rmtree(os.path.join(d, "src"))
        shutil.copytree(os.path.join(src, "src"), os.path.join(d, "src"))
        t = open(os.path.join(src, "Cargo.toml.in")).read().replace("@REPO@", kanirun.REPO).replace("@VERIF@", ROOT)
        kanirun._write_if_changed(os.path.join(d, "Cargo.toml"), t)
        if not os.path.exists(os.path.join(d, "Cargo.lock")):
            shutil.copy(os.path.join(kanirun.REPO, "Cargo.lock"), os.path.join(d, "Cargo.lock"))
        env = dict(kanirun.ENV)
        if flavour == "rng":
            env["RUSTFLAGS"] = '--cfg getrandom_backend="custom"'
        tgt = _replay_target(d, flavour)
        env["CARGO_TARGET_DIR"] = tgt
        for prof in (["--release"], []):
            rc, out = kanirun.sh(["cargo", "build", "--offline"] + prof, cwd=d, timeout=2400, env=env)
            if rc != 0:
                raise RuntimeError("replay crate (%s) failed to build:\n%s" % (flavour, out[-3000:]))
        # private copies of the two binaries: a shared target dir may be rebuilt by another check
        for prof in ("release", "debug"):
            os.makedirs(os.path.join(d, "bin", prof), exist_ok=True)
            shutil.copy2(os.path.join(tgt, prof, "replay"), os.path.join(d, "bin", prof, "replay"))
        _replay_built[flavour] = True
    return os.path.join(d, "bin", "release", "replay"), os.path.join(d, "bin", "debug", "replay")


def _replay_target(d, flavour):
    """target dir of the replay build.  VERIF_REPLAY_TARGET (set by lib/test_seed.sh) shares the compiled
    third-party crates (aws-lc's C build above all) between scratch build roots; cargo's own lock
    serialises concurrent builds."""
    shared = os.environ.get("VERIF_REPLAY_TARGET")
    return os.path.join(shared, flavour) if shared else os.path.join(d, "target")


def run_recipe(recipe, args):
    rel, dev = replay_bin("rng" if recipe == "rng_fail" else "std")
    outs = []
    ok_all = None
    cond = None
    # the dev profile is the one Kani models (debug assertions / overflow checks on); the release run is
    # recorded as well: a counterexample counts as reproduced when the dev build reproduces it
    for name, b in (("dev", dev), ("release", rel)):
        p = subprocess.run([b, recipe], input=json.dumps(args), stdout=subprocess.PIPE, stderr=subprocess.STDOUT, text=True,
                           timeout=1800)
        outs.append("[%s profile]\n%s" % (name, p.stdout))
        m = re.search(r"^CONDITION (\S+)", p.stdout, re.M)
        if m and cond is None:
            cond = m.group(1)
        ok = "REPRODUCED" in p.stdout and "NOT-REPRODUCED" not in p.stdout
        if name == "dev":
            ok_all = ok
        else:
            outs.append("release profile reproduces: %s" % ok)
    return bool(ok_all), "\n".join(outs), cond


def confirm(prop, r, seed):
    """Native confirmation of a counterexample.  Order: the harness's native recipe over the REAL crates
    (if it has one); if that does not reproduce (the recipe demonstrates a particular mechanism, e.g. the
    PBKW nonce path, and the counterexample may come from another), or if there is no recipe, Kani's
    concrete playback of the harness itself: the solver's values are replayed natively through the real
    paseto-rs code of the harness crate, with the primitives still the model crates."""
    import specs
    spec = r["spec"]
    group = specs.group(spec.group)
    first = None
    try:
        if spec.replay.startswith("native:"):
            first = native(prop, r, group, spec.replay.split(":", 1)[1], seed)
            if first["reproduced"]:
                return first
        rep = playback(prop, r, group)
        if first is not None and not rep["reproduced"]:
            rep["detail"] = "native recipe: %s; playback: %s" % (first.get("detail", ""), rep.get("detail", ""))
        elif first is not None:
            rep["detail"] = "native recipe did not reproduce (%s); %s" % (first.get("detail", ""), rep.get("detail", ""))
        return rep
    except Exception as e:  # machinery fault
        return {"reproduced": False, "detail": "replay machinery error: %r" % (e,), "path": None}


def rerun(path):
    d = json.load(open(path))
    if d.get("kind") == "native":
        ok, out, _ = run_recipe(d["recipe"], d["args"])
        print(out)
        print("REPRODUCED" if ok else "NOT-REPRODUCED")
        return 1 if ok else 0
    print("playback replay: re-run the check for property %s (harness %s); the generated test was %s" % (
        d.get("property"), d.get("harness"), d.get("test")))
    import specs
    P = specs.PROPS[d["property"]]
    res, _ = P.run("thorough", 0, d["harness"].split("::")[-1])
    bad = [r for r in res if r["class"] == "violation"]
    for r in bad:
        rep = confirm(d["property"], r, 0)
        print(rep["detail"])
        if rep["reproduced"]:
            return 1
    return 0
