"""usage: seed_mark.py <seed-id> <detected|missed|inconclusive> <by-text>"""
import json, sys, os
ROOT = os.path.dirname(os.path.dirname(os.path.abspath(__file__)))
p = os.path.join(ROOT, "seeded", sys.argv[1], "meta.json")
d = json.load(open(p))
d["detected_by"] = {"result": sys.argv[2], "by": sys.argv[3]}
json.dump(d, open(p, "w"), indent=1)
