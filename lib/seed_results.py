"""Regenerate seeded/RESULTS.md from seeded/*/meta.json (field detected_by)."""
import json, glob, os
ROOT = os.path.dirname(os.path.dirname(os.path.abspath(__file__)))
rows = []
for p in sorted(glob.glob(os.path.join(ROOT, "seeded", "*", "meta.json"))):
    d = json.load(open(p))
    rows.append(d)
out = ["# Seeded changes and which checks catch them", "",
       "`detected` = the named check exited 1 with a natively replayed VIOLATION line when run against a scratch",
       "worktree of /repo with the patch applied (`lib/test_seed.sh`); anything else is a miss.", "",
       "| seed | property | change | result | by |", "|---|---|---|---|---|"]
for d in rows:
    db = d.get("detected_by", "pending")
    if isinstance(db, dict):
        res, by = db.get("result", "?"), db.get("by", "")
    else:
        res, by = db, ""
    out.append("| %s | %s | %s | %s | %s |" % (d["id"], d["property"], d["change"].replace("|", "/")[:150], res, by.replace("|", "/")))
open(os.path.join(ROOT, "seeded", "RESULTS.md"), "w").write("\n".join(out) + "\n")
print("\n".join(out[-len(rows):]))
