"""usage: mkvalidated.py <log files...>   — (re)writes lib/validated.json with every (group, harness) that PASSED
in one of the given ./check logs.  Existing entries are kept."""
import re, sys, json, os
ROOT = os.path.dirname(os.path.abspath(__file__))
p = os.path.join(ROOT, "validated.json")
passed = set(tuple(x) for x in json.load(open(p))["passed"]) if os.path.exists(p) else set()
for f in sys.argv[1:]:
    for l in open(f, errors="replace"):
        m = re.match(r"\s+\[(\w+)\]\s+(\S+)\s+pass\s", l)
        if m:
            passed.add((m.group(1), m.group(2)))
json.dump({"_comment": "harnesses with a recorded pass on this tree (thorough tier registration, see lib/specs.py)",
           "passed": sorted(passed)}, open(p, "w"), indent=0)
print(len(passed), "validated harnesses")
