"""Property -> harness table.  Tiers: 'q' quick, 't' thorough (thorough always includes quick)."""
import os
import kanirun
from kanirun import Group

_groups = {}


def group(name):
    return _groups[name]


def _reg(g):
    _groups[g.name] = g
    return g


class H:
    def __init__(self, group, name, tiers="qt", timeout=300, mem=10, mode="full", replay="playback", unwind=None,
                 doc="", schema=None, replay_args=None):
        self.group, self.name, self.tiers = group, name, tiers
        self.timeout, self.mem, self.mode, self.replay = timeout, mem, mode, replay
        self.unwind, self.doc, self.schema, self.replay_args = unwind, doc, schema, replay_args


class Prop:
    level = "model_checking"

    def __init__(self, pid, harnesses, explanation, functions, bounds, outside, models, assumptions, level=None,
                 extra_runner=None):
        self.pid, self.harnesses = pid, harnesses
        self.explanation, self.functions, self.bounds = explanation, functions, bounds
        self.outside, self.models, self.assumptions = outside, models, assumptions
        if level:
            self.level = level
        self.extra_runner = extra_runner

    def select(self, tier, only=None):
        hs = [h for h in self.harnesses if ("q" in h.tiers if tier == "quick" else True)]
        if only:
            hs = [h for h in hs if only in h.name]
        return hs

    def run(self, tier, seed, only=None):
        hs = self.select(tier, only)
        jobs = []
        for h in hs:
            g = group(h.group)
            jobs.append(dict(group=g, harness=h.name, mode=h.mode, timeout_s=h.timeout, mem_gb=h.mem, unwind=h.unwind))
        by = {(h.group, h.name): h for h in hs}
        results = kanirun.run_jobs(jobs) if jobs else []
        for r in results:
            h = by[(r["group"], r["harness"])]
            r["spec"] = h
            r["doc"] = h.doc
        extra = {}
        srcs = []
        for gname in sorted({h.group for h in hs}):
            for rel, blob in group(gname).encoded_files:
                srcs.append({"file": rel, "git_blob": blob, "group": gname})
        extra["encoded_sources"] = srcs
        if self.extra_runner:
            more, ex2 = self.extra_runner(tier, seed, only)
            results += more
            extra.update(ex2)
        return results, extra


# ------------------------------------------------------------------------------------------------
# groups
# ------------------------------------------------------------------------------------------------

def _gen_core_units(g):
    g.encoded_files = []
    g.unit_copy("paseto-core/src/base64.rs", "proofs/base64_proofs.rs", "base64_unit.rs")
    g.note_repo_files(["paseto-core/src/pae.rs", "paseto-core/src/encodings.rs", "paseto-core/src/tokens.rs",
                       "paseto-core/src/validation.rs", "paseto-core/src/key.rs", "paseto-core/src/version.rs",
                       "paseto-core/src/paserk/id.rs", "paseto-core/src/paserk/plaintext.rs",
                       "paseto-core/src/paserk/pie_wrap.rs", "paseto-core/src/paserk/pw_wrap.rs",
                       "paseto-core/src/paserk/pke.rs"])


_reg(Group("core_units", gen=_gen_core_units, stubbing=True))

def _gen_backend(files):
    def gen(g):
        g.encoded_files = []
        g.note_repo_files(files)
        import shutil, os
        # shared generic harness code
        dst = os.path.join(g.dir, "common")
        if os.path.isdir(dst):
            shutil.rmtree(dst)
        shutil.copytree(os.path.join(kanirun.VERIF, "harness", "common"), dst)
    return gen


def _backend_files(crate):
    import glob
    return sorted(os.path.relpath(p, kanirun.REPO) for p in glob.glob(os.path.join(kanirun.REPO, crate, "src", "**", "*.rs"), recursive=True)) + [
        "paseto-core/src/pae.rs", "paseto-core/src/version.rs", "paseto-core/src/key.rs"]


_reg(Group("v4", gen=_gen_backend(_backend_files("paseto-v4")), stubbing=True))

def _gen_json(g):
    g.encoded_files = []
    g.note_repo_files(["paseto-json/src/lib.rs", "paseto-core/src/validation.rs"])


_reg(Group("json_units", gen=_gen_json))

B64 = "base64::proofs::"

PROPS = {}

# ------------------------------------------------------------------------------------------------
# C09
# ------------------------------------------------------------------------------------------------
_c09 = []
for n, d in [("l0_decode_6bits_exact", "all 256 byte values: decode_6bits == RFC 4648 table-2 value or -1"),
             ("l0_encode_6bits_inverse", "all 64 sextets / all alphabet bytes: encode_6bits and decode_6bits are mutually inverse"),
             ("l0_encode_then_decode_3bytes", "all 2^24 byte triples: encode_3bytes emits the 4 spec sextets; decode_3bytes returns the triple with err=0"),
             ("l0_decode_3bytes_exact", "all 2^32 char quadruples: err flag == (some char outside the alphabet); accepted quadruples decode to the spec value and re-encode to themselves"),
             ("l0_decoded_len", "all 2^64 lengths: decoded_len(n) == floor(3n/4)"),
             ("l0_encode_last", "all tails of 0..2 bytes: encode_last emits exactly the first n+1 characters of the zero-padded block")]:
    _c09.append(H("core_units", B64 + n, "qt", timeout=300, doc=d))
for n in range(0, 12):
    tiers = "qt" if n <= 7 else "t"
    _c09.append(H("core_units", B64 + "l1_decode_strict_n%d" % n, tiers, timeout=900 if n > 7 else 400,
                  doc="every string of length %d over all 256 byte values: decode is Ok iff all chars are base64url, length mod 4 != 1 and trailing bits are zero; Ok value equals the spec bit string" % n))
_c09.append(H("core_units", B64 + "l1_decode_small_dst", "qt", timeout=400,
              doc="6-char strings into a destination of every capacity 0..6: too small => Err, never truncation"))
_c09.append(H("core_units", B64 + "l1_encode_roundtrip_empty", "qt", timeout=300,
              doc="the empty byte string encodes to the empty string, which decodes (decode, decode_vec) to empty"))
for n in range(1, 9):
    tiers = "qt" if n <= 4 else "t"
    _c09.append(H("core_units", B64 + "l1_encode_roundtrip_n%d" % n, tiers, timeout=600, mode="lean",
                  doc="every byte string of length %d: write_to_fmt emits ceil(4n/3) alphabet chars, no padding; decode and decode_vec return the bytes" % n))
for n in (0, 1, 2, 3, 5, 6, 7):
    tiers = "qt" if n <= 3 else "t"
    _c09.append(H("core_units", B64 + "l1_decode_vec_agrees_n%d" % n, tiers, timeout=600,
                  doc="every string of length %d: decode_vec and decode agree (accept/reject and bytes)" % n))

PROPS["C09"] = Prop(
    "C09", _c09,
    explanation="C09 is decided by CBMC over the repository's own base64.rs (copied verbatim into the harness crate at check time, proofs appended) and over the real FromStr/Display impls of paseto-core. L0 harnesses quantify over the full input type (no bound); L1 harnesses over every string/byte-string of each stated length with symbolic contents.",
    functions=["paseto_core::base64::{decode_6bits, encode_6bits, decode_3bytes, encode_3bytes, encode_last, decoded_len, decode, decode_vec, decode_inner, validate_last_block, write_to_fmt}"],
    bounds={"quick": "L0: unbounded (all values of the argument types). L1: decode on all strings of length 0..7, encode round trip on byte strings of length 0..5, decode_vec agreement lengths 0..3; unwind 14 with unwinding assertions",
            "thorough": "L0: unbounded. L1: decode on all strings of length 0..11 (two full blocks + every tail), encode round trip lengths 0..8, decode_vec agreement 0..7; unwind 14 with unwinding assertions"},
    outside=["strings longer than the stated lengths (blocks are processed independently by as_chunks, which is why two blocks plus every tail length is the bound)",
             "the JSON text produced by serde_json for the serde representation (serde_json's code)"],
    models=["none for L0/L1 base64: the code verified is the repository's source text"],
    assumptions=["strings are modelled as arbitrary byte arrays viewed through from_utf8_unchecked (a superset of valid UTF-8; decode only uses as_bytes())",
                 "Kani/CBMC/CaDiCaL are sound for the MIR they are given"],
)


# ------------------------------------------------------------------------------------------------
# C19
# ------------------------------------------------------------------------------------------------
def _c19_runner(tier, seed, only):
    import c19
    return c19.run(tier, seed, only)


PROPS["C19"] = Prop(
    "C19", [],
    explanation="The feature flags are the symbolic variables. An extractor re-reads every Cargo.toml [features] table and every #[cfg] guard of paseto-v1..v4, paseto-core and paseto-json, together with what each guarded item references (optional crates, super:: imports, supertrait-required impls). z3 decides whether a closed feature set exists under which some referenced item or dependency is configured out (UNSAT = every subset resolves w.r.t. the extracted references); any model is replayed with cargo check. The solver then enumerates every distinct closed feature set and each (thorough) or a covering subset (quick) is built with cargo check, so extractor misses cannot hide a non-building configuration. Behavioural equality of reduced builds rests on the checked syntactic fact that no function or impl body contains a #[cfg]/cfg!: an operation that exists in a reduced build is the same code as in the full build.",
    functions=["paseto-v{1,2,3,4}/Cargo.toml [features]", "paseto-v{1,2,3,4}/src/**: every #[cfg(feature=..)] item", "paseto-core (serde)", "paseto-json (claims)"],
    bounds={"quick": "all 2^9 subsets per crate in the solver query; cargo check of the empty set, every single-feature closure and the full set",
            "thorough": "all 2^9 subsets per crate in the solver query; cargo check of every distinct closed feature set (45 per RustCrypto crate)"},
    outside=["references the syntactic extractor cannot see (macro-generated items, type inference through re-exports) — covered only by the enumerated builds",
             "run-time behaviour of reduced builds beyond 'same code': no reduced-feature binary is executed",
             "the aws-lc and libsodium crates (their features select the C library build, not Rust items)"],
    models=["cargo's feature resolution modelled as: enabled set = closure of the selected set under the [features] edges; dep:x enabled iff some enabled feature lists it; x?/f active iff listed and x enabled"],
    assumptions=["cargo check success == the crate builds for that feature set", "z3 (cross-checked with cvc5 on the same SMT-LIB2 text)"],
    level="other", extra_runner=_c19_runner)
