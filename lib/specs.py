"""Property -> harness table.  Tiers: 'q' quick, 't' thorough (thorough always includes quick)."""
import os
import kanirun
from kanirun import Group

_groups = {}


def group(name):
    return _groups[name]


def _reg(g):
    _groups[g.name] = g
    return g


class H:
    def __init__(self, group, name, tiers="qt", timeout=300, mem=14, mode="full", replay="playback", unwind=None,
                 doc="", schema=None, replay_args=None, fs=None):
        self.fs = fs
        self.group, self.name, self.tiers = group, name, tiers
        self.timeout, self.mem, self.mode, self.replay = timeout, mem, mode, replay
        self.unwind, self.doc, self.schema, self.replay_args = unwind, doc, schema, replay_args


class Prop:
    level = "model_checking"

    def __init__(self, pid, harnesses, explanation, functions, bounds, outside, models, assumptions, level=None,
                 extra_runner=None):
        self.pid, self.harnesses = pid, harnesses
        self.explanation, self.functions, self.bounds = explanation, functions, bounds
        self.outside, self.models, self.assumptions = outside, models, assumptions
        if level:
            self.level = level
        self.extra_runner = extra_runner

    def select(self, tier, only=None):
        hs = [h for h in self.harnesses if ("q" in h.tiers if tier == "quick" else ("q" in h.tiers or "t" in h.tiers))]
        if only:
            hs = [h for h in hs if only in h.name or only in (h.group + ":" + h.name)]
        return hs

    def run(self, tier, seed, only=None):
        hs = self.select(tier, only)
        jobs = []
        for h in hs:
            g = group(h.group)
            jobs.append(dict(group=g, harness=h.name, mode=h.mode, timeout_s=h.timeout, mem_gb=h.mem, unwind=h.unwind, fs=h.fs))
        by = {(h.group, h.name): h for h in hs}
        results = kanirun.run_jobs(jobs) if jobs else []
        for r in results:
            h = by[(r["group"], r["harness"])]
            r["spec"] = h
            r["doc"] = h.doc
        extra = {}
        srcs = []
        for gname in sorted({h.group for h in hs}):
            for rel, blob in group(gname).encoded_files:
                srcs.append({"file": rel, "git_blob": blob, "group": gname})
        extra["encoded_sources"] = srcs
        unval = globals().get("UNVALIDATED", {}).get(self.pid, [])
        if unval:
            extra.setdefault("coverage_extra", {})["harnesses_built_but_not_registered"] = {
                "why": "thorough-only harnesses without a recorded pass on this tree (not run within the time available, or not finishing); they are in /verif/harness but are not part of any tier",
                "count": len(unval), "names": unval[:200]}
        if self.extra_runner:
            more, ex2 = self.extra_runner(tier, seed, only)
            results += more
            extra.update(ex2)
        return results, extra


# ------------------------------------------------------------------------------------------------
# groups
# ------------------------------------------------------------------------------------------------

def _gen_core_units(g):
    g.encoded_files = []
    g.unit_copy("paseto-core/src/base64.rs", "proofs/base64_proofs.rs", "base64_unit.rs")
    g.note_repo_files(["paseto-core/src/pae.rs", "paseto-core/src/encodings.rs", "paseto-core/src/tokens.rs",
                       "paseto-core/src/validation.rs", "paseto-core/src/key.rs", "paseto-core/src/version.rs",
                       "paseto-core/src/paserk/id.rs", "paseto-core/src/paserk/plaintext.rs",
                       "paseto-core/src/paserk/pie_wrap.rs", "paseto-core/src/paserk/pw_wrap.rs",
                       "paseto-core/src/paserk/pke.rs"])


_reg(Group("core_units", gen=_gen_core_units, stubbing=True))

def _gen_backend(files):
    def gen(g):
        g.encoded_files = []
        g.note_repo_files(files)
        import shutil, os
        # shared generic harness code
        dst = os.path.join(g.dir, "common")
        if os.path.isdir(dst):
            shutil.rmtree(dst)
        shutil.copytree(os.path.join(kanirun.VERIF, "harness", "common"), dst)
    return gen


def _backend_files(crate):
    import glob
    return sorted(os.path.relpath(p, kanirun.REPO) for p in glob.glob(os.path.join(kanirun.REPO, crate, "src", "**", "*.rs"), recursive=True)) + [
        "paseto-core/src/pae.rs", "paseto-core/src/version.rs", "paseto-core/src/key.rs"]


_reg(Group("v4", gen=_gen_backend(_backend_files("paseto-v4")), stubbing=True))
_reg(Group("v3", gen=_gen_backend(_backend_files("paseto-v3")), stubbing=True))
_reg(Group("v2", gen=_gen_backend(_backend_files("paseto-v2")), stubbing=True))
_reg(Group("v1", gen=_gen_backend(_backend_files("paseto-v1")), stubbing=True))
_reg(Group("v3awslc", gen=_gen_backend(_backend_files("paseto-v3-aws-lc")), stubbing=True))
_reg(Group("v4sodium", gen=_gen_backend(_backend_files("paseto-v4-sodium")), stubbing=True))

def _gen_json(g):
    g.encoded_files = []
    g.note_repo_files(["paseto-json/src/lib.rs", "paseto-core/src/validation.rs"])


_reg(Group("json_units", gen=_gen_json, stubbing=True))

B64 = "base64::proofs::"

PROPS = {}

# ------------------------------------------------------------------------------------------------
# C09
# ------------------------------------------------------------------------------------------------
_c09 = []
for n, d in [("l0_decode_6bits_exact", "all 256 byte values: decode_6bits == RFC 4648 table-2 value or -1"),
             ("l0_encode_6bits_inverse", "all 64 sextets / all alphabet bytes: encode_6bits and decode_6bits are mutually inverse"),
             ("l0_encode_then_decode_3bytes", "all 2^24 byte triples: encode_3bytes emits the 4 spec sextets; decode_3bytes returns the triple with err=0"),
             ("l0_decode_3bytes_exact", "all 2^32 char quadruples: err flag == (some char outside the alphabet); accepted quadruples decode to the spec value and re-encode to themselves"),
             ("l0_decoded_len", "all 2^64 lengths: decoded_len(n) == floor(3n/4)"),
             ("l0_encode_last", "all tails of 0..2 bytes: encode_last emits exactly the first n+1 characters of the zero-padded block")]:
    _c09.append(H("core_units", B64 + n, "qt", timeout=300, doc=d))
for n in range(0, 12):
    tiers = "qt" if n <= 7 else "t"
    _c09.append(H("core_units", B64 + "l1_decode_strict_n%d" % n, tiers, timeout=900 if n > 7 else 400,
                  doc="every string of length %d over all 256 byte values: decode is Ok iff all chars are base64url, length mod 4 != 1 and trailing bits are zero; Ok value equals the spec bit string" % n))
_c09.append(H("core_units", B64 + "l1_decode_small_dst", "qt", timeout=400,
              doc="6-char strings into a destination of every capacity 0..6: too small => Err, never truncation"))
_c09.append(H("core_units", B64 + "l1_encode_roundtrip_empty", "qt", timeout=300,
              doc="the empty byte string encodes to the empty string, which decodes (decode, decode_vec) to empty"))
for n in range(1, 9):
    tiers = "qt" if n <= 4 else "t"
    _c09.append(H("core_units", B64 + "l1_encode_roundtrip_n%d" % n, tiers, timeout=600, mode="lean",
                  doc="every byte string of length %d: write_to_fmt emits ceil(4n/3) alphabet chars, no padding; decode and decode_vec return the bytes" % n))
for n in (0, 1, 2, 3, 5, 6, 7):
    tiers = "qt" if n <= 3 else "t"
    _c09.append(H("core_units", B64 + "l1_decode_vec_agrees_n%d" % n, tiers, timeout=600,
                  doc="every string of length %d: decode_vec and decode agree (accept/reject and bytes)" % n))

PROPS["C09"] = Prop(
    "C09", _c09,
    explanation="C09 is decided by CBMC over the repository's own base64.rs (copied verbatim into the harness crate at check time, proofs appended) and over the real FromStr/Display impls of paseto-core. L0 harnesses quantify over the full input type (no bound); L1 harnesses over every string/byte-string of each stated length with symbolic contents.",
    functions=["paseto_core::base64::{decode_6bits, encode_6bits, decode_3bytes, encode_3bytes, encode_last, decoded_len, decode, decode_vec, decode_inner, validate_last_block, write_to_fmt}"],
    bounds={"quick": "L0: unbounded (all values of the argument types). L1: decode on all strings of length 0..7, encode round trip on byte strings of length 0..5, decode_vec agreement lengths 0..3; unwind 14 with unwinding assertions",
            "thorough": "L0: unbounded. L1: decode on all strings of length 0..11 (two full blocks + every tail), encode round trip lengths 0..8, decode_vec agreement 0..7; unwind 14 with unwinding assertions"},
    outside=["strings longer than the stated lengths (blocks are processed independently by as_chunks, which is why two blocks plus every tail length is the bound)",
             "the JSON text produced by serde_json for the serde representation (serde_json's code)"],
    models=["none for L0/L1 base64: the code verified is the repository's source text"],
    assumptions=["strings are modelled as arbitrary byte arrays viewed through from_utf8_unchecked (a superset of valid UTF-8; decode only uses as_bytes())",
                 "Kani/CBMC/CaDiCaL are sound for the MIR they are given"],
)


# ------------------------------------------------------------------------------------------------
# C19
# ------------------------------------------------------------------------------------------------
def _c19_runner(tier, seed, only):
    import c19
    return c19.run(tier, seed, only)


PROPS["C19"] = Prop(
    "C19", [],
    explanation="The feature flags are the symbolic variables. An extractor re-reads every Cargo.toml [features] table and every #[cfg] guard of paseto-v1..v4, paseto-core and paseto-json, together with what each guarded item references (optional crates, super:: imports, supertrait-required impls). z3 decides whether a closed feature set exists under which some referenced item or dependency is configured out (UNSAT = every subset resolves w.r.t. the extracted references); any model is replayed with cargo check. The solver then enumerates every distinct closed feature set and each (thorough) or a covering subset (quick) is built with cargo check, so extractor misses cannot hide a non-building configuration. Behavioural equality of reduced builds rests on the checked syntactic fact that no function or impl body contains a #[cfg]/cfg!: an operation that exists in a reduced build is the same code as in the full build.",
    functions=["paseto-v{1,2,3,4}/Cargo.toml [features]", "paseto-v{1,2,3,4}/src/**: every #[cfg(feature=..)] item", "paseto-core (serde)", "paseto-json (claims)"],
    bounds={"quick": "all 2^9 subsets per crate in the solver query; cargo check of the empty set, every single-feature closure and the full set",
            "thorough": "all 2^9 subsets per crate in the solver query; cargo check of every distinct closed feature set (45 per RustCrypto crate)"},
    outside=["references the syntactic extractor cannot see (macro-generated items, type inference through re-exports) — covered only by the enumerated builds",
             "run-time behaviour of reduced builds beyond 'same code': no reduced-feature binary is executed",
             "the aws-lc and libsodium crates (their features select the C library build, not Rust items)"],
    models=["cargo's feature resolution modelled as: enabled set = closure of the selected set under the [features] edges; dep:x enabled iff some enabled feature lists it; x?/f active iff listed and x enabled"],
    assumptions=["cargo check success == the crate builds for that feature set", "z3 (cross-checked with cvc5 on the same SMT-LIB2 text)"],
    level="other", extra_runner=_c19_runner)


# ------------------------------------------------------------------------------------------------
# L2 tables (per backend), derived mechanically from harness/common/inst.rs
# ------------------------------------------------------------------------------------------------
TOK = [("pos", "usize"), ("bit", "u8"), ("x", "u8")]
KEY = [("key", "bytes:32")]
MFA = [("msg", "bytes:24"), ("footer", "bytes:24"), ("aad", "bytes:24")]

BACKENDS = {}


def l2_backend(name, group, aad, sizes, quick=True, paserk=True, pke=True, public=True, extra=None, rng_fail=True, keys=None):
    """registers harness specs for one backend; returns dict prop -> [H]"""
    P = "proofs::"
    out = {k: [] for k in ("C01", "C02", "C04", "C05", "C06", "C08", "C12", "C13", "C16")}
    A = 1 if aad else 0
    q = "qt" if quick else "t"

    def rt(n, m, f, a, tiers):
        out["C01"].append(H(group, P + n, tiers, timeout=1500, mem=14, mode="lean", replay="native:local_roundtrip",
                            schema=KEY + MFA, replay_args={"backend": name, "m": m, "f": f, "a": a},
                            doc="%s local: seal with the library's own nonce path then unseal, every key/nonce/message; |m|=%d |f|=%d |a|=%d" % (name, m, f, a)))
    rt("local_roundtrip_m0_f0_a0", 0, 0, 0, "t")
    rt("local_roundtrip_m3_f2", 3, 2, A, q)
    rt("local_roundtrip_m17_f0", 17, 0, 0, "t")
    # local_roundtrip_m33_f1 is not registered: 33 bytes exceed the harness library's symbolic byte-string buffer (SMAX = 24)
    if public:
        for n, m, f, a, tiers in (("public_roundtrip_m0_f0_a0", 0, 0, 0, "t"), ("public_roundtrip_m3_f2", 3, 2, A, q)):
            out["C01"].append(H(group, P + n, tiers, timeout=1500, mem=14, mode="lean", replay="native:public_roundtrip",
                                schema=MFA, replay_args={"backend": name, "m": m, "f": f, "a": a, "loops": sizes.get("sign_loops", 400)},
                                doc="%s public: sign with a generated key then verify; |m|=%d |f|=%d |a|=%d" % (name, m, f, a)))
        out["C01"].append(H(group, P + "public_seal_total_m3_f2", q, timeout=900, mem=12, mode="lean", replay="native:public_roundtrip",
                            schema=MFA, replay_args={"backend": name, "m": 3, "f": 2, "a": A, "loops": sizes.get("sign_loops", 400)},
                            doc="%s public: signing never fails for a valid key, for every value the signature scheme can return; output = message ‖ signature of the prescribed length" % name))
    # C02 / C12
    def tam(purpose, n, w, tiers, m=2, f=2, a=A):
        h = H(group, P + n, tiers, timeout=1500, mem=14, mode="lean", replay="native:%s_tamper" % purpose,
              schema=TOK + (KEY if purpose == "local" else []) + MFA,
              replay_args={"backend": name, "m": m, "f": f, "a": a, "w": w},
              doc="%s %s: tamper class %s on a genuinely sealed token must be rejected" % (name, purpose, n.split("_", 2)[2]))
        out["C02"].append(h)
        return h
    hb = tam("local", "local_tamper_payload_bit_m2", 100, q, 2, 1, 0)
    out["C12"].append(hb)
    cls = [("w0_footer_bit", 0), ("w2_footer_grow", 2), ("w3_footer_shrink", 3), ("w8_ct_to_footer", 8), ("w9_footer_to_ct", 9),
           ("w10_trunc_end", 10), ("w11_trunc_front", 11), ("w12_extend_end", 12), ("w13_extend_front", 13), ("w14_other_key", 14)]
    if aad:
        cls += [("w1_aad_bit", 1), ("w4_aad_grow", 4), ("w5_aad_shrink", 5), ("w6_footer_to_aad", 6), ("w7_aad_to_footer", 7)]
    quick_cls = {"w8_ct_to_footer", "w10_trunc_end", "w6_footer_to_aad", "w14_other_key"}
    for cn, w in cls:
        tam("local", "local_tamper_" + cn, w, q if cn in quick_cls else "t", 2, 2, 2 if (aad and w in (1, 4, 5, 6, 7)) else A)
    if public:
        tam("public", "public_tamper_payload_bit_m2", 100, q, 2, 1, 0)
        for cn, w in cls:
            cn2 = cn.replace("ct_to_footer", "msg_to_footer").replace("footer_to_ct", "footer_to_msg")
            tam("public", "public_tamper_" + cn2, w, q if cn in {"w8_ct_to_footer", "w12_extend_end"} else "t", 2, 2, 2 if (aad and w in (1, 4, 5, 6, 7)) else A)
    if not aad:
        for n in ("local_aad_refused_",) + (("public_aad_refused_",) if public else ()):
            out["C02"].append(H(group, P + n, q, timeout=1200, mem=14, mode="lean", replay="none",
                                doc="%s: a non-empty implicit assertion is refused with ClaimsError on seal and unseal" % name))
    # C04
    for n in ["local_unseal_arbitrary_n0", "local_unseal_arbitrary_below", "local_unseal_arbitrary_min", "local_unseal_arbitrary_above"] + (
            ["public_unseal_arbitrary_n0", "public_unseal_arbitrary_below", "public_unseal_arbitrary_above"] if public else []):
        base = (sizes["nonce"] + sizes["tag"]) if n.startswith("local") else sizes["sig"]
        ln = {"n0": 0, "below": base - 1, "min": base, "above": base + (2 if n.startswith("local") else 1)}[n.rsplit("_", 1)[1]]
        out["C04"].append(H(group, P + n, q if n.endswith(("_below", "_min")) else "t", timeout=1500, mem=14, mode="full", replay="native:arbitrary_len", schema=[],
                            replay_args={"backend": name, "op": n.split("_")[0], "n": ln},
                            doc="%s: unseal of arbitrary payload bytes of length %d, every Kani memory-safety/panic/overflow check on" % (name, ln)))
    # C16
    for n in (["local_rng_fail_closed_"] + (["public_rng_fail_closed_"] if public else [])) if rng_fail else []:
        out["C16"].append(H(group, P + n, q, timeout=900, mem=14, mode="lean", replay="native:rng_fail", schema=[],
                            replay_args={"backend": name, "op": "local_seal" if n.startswith("local") else "random_secret", "at": 0},
                            doc="%s: RNG failure at the draw of nonce()/random() is returned as Err, nothing is produced" % name))
    if paserk:
        for n, kind in (("pie_roundtrip_local", "local"), ("pie_roundtrip_secret", "secret")):
            out["C05"].append(H(group, P + n, q if kind == "local" else "t", timeout=1500, mem=14, mode="lean", replay="native:pie",
                                schema=[("wkey", "bytes:32"), ("kd", "bytes:%d" % (32 if kind == "local" else sizes["secret_len"]))],
                                replay_args={"backend": name, "kind": kind, "w": 255},
                                doc="%s PIE %s: wrap then unwrap returns the key; output length fixed" % (name, kind)))
        for n, w in (("pie_tamper_w0_bit", 0), ("pie_tamper_w1_relabel", 1), ("pie_tamper_w2_other_key", 2), ("pie_tamper_w3_trunc", 3), ("pie_tamper_w4_extend", 4)):
            out["C06"].append(H(group, P + n, q if w in (0, 1) else "t", timeout=1500, mem=14, mode="lean", replay="native:pie",
                                schema=TOK + [("wkey", "bytes:32"), ("kd", "bytes:32")], replay_args={"backend": name, "kind": "local", "w": w},
                                doc="%s PIE: tamper class %s must be rejected" % (name, n[11:])))
        if rng_fail:
            out["C16"].append(H(group, P + "pie_rng_fail_closed_", q, timeout=900, mem=14, mode="lean", replay="native:rng_fail", schema=[],
                                replay_args={"backend": name, "op": "pie", "at": 0}, doc="%s PIE: RNG failure => Err" % name))
        for n in ("pie_unwrap_arbitrary_n0", "pie_unwrap_arbitrary_below", "pie_unwrap_arbitrary_above"):
            ln = {"n0": 0, "below": sizes["pie_over"] - 1, "above": sizes["pie_over"] + 1}[n.rsplit("_", 1)[1]]
            out["C04"].append(H(group, P + n, q if n.endswith("_below") else "t", timeout=1500, mem=14, mode="full", replay="native:arbitrary_len", schema=[],
                                replay_args={"backend": name, "op": "pie", "n": ln}, doc="%s: pie_unwrap_key on arbitrary bytes of length %d" % (name, ln)))
        out["C05"].append(H(group, P + "pw_roundtrip_local_default", q, timeout=1500, mem=14, mode="lean", replay="native:pw",
                            schema=[("pass", "bytes:24"), ("kd", "bytes:32")], replay_args={"backend": name, "kind": "local", "w": 255, "passlen": 2},
                            doc="%s PBKW local, default parameters, 2-byte password" % name))
        out["C05"].append(H(group, P + "pw_roundtrip_secret_default_pw0", "t", timeout=1500, mem=14, mode="lean", replay="native:pw",
                            schema=[("pass", "bytes:24"), ("kd", "bytes:%d" % sizes["secret_len"])], replay_args={"backend": name, "kind": "secret", "w": 255, "passlen": 0},
                            doc="%s PBKW secret, default parameters, empty password" % name))
        out["C05"].append(H(group, P + "pw_default_must_succeed_", "t", timeout=900, mem=14, mode="lean", replay="native:pw", schema=[("pass", "bytes:2")],
                            replay_args={"backend": name, "kind": "local", "w": 255}, doc="%s PBKW: wrap with default parameters always succeeds" % name))
        out["C05"].append(H(group, P + "pw_roundtrip_local_symbolic_params", "t", timeout=1800, mem=14, mode="lean", replay="none",
                            doc="%s PBKW: every parameter block the backend's own parser accepts either is refused by wrap or round-trips" % name))
        for n, w in (("pw_tamper_w0_bit", 0), ("pw_tamper_w1_relabel", 1), ("pw_tamper_w2_other_pw", 2), ("pw_tamper_w3_pw_longer", 3), ("pw_tamper_w4_pw_shorter", 4),
                     ("pw_tamper_w5_trunc", 5), ("pw_tamper_w6_extend", 6)):
            out["C06"].append(H(group, P + n, q if w in (0, 2) else "t", timeout=1500, mem=14, mode="lean", replay="native:pw",
                                schema=TOK + [("pass", "bytes:2"), ("kd", "bytes:32")], replay_args={"backend": name, "kind": "local", "w": w},
                                doc="%s PBKW: tamper class %s must be rejected" % (name, n[10:])))
        for n in ("pw_unwrap_arbitrary_n0", "pw_unwrap_arbitrary_below", "pw_unwrap_arbitrary_above"):
            ln = {"n0": 0, "below": sizes["pw_over"] - 1, "above": sizes["pw_over"] + 1}[n.rsplit("_", 1)[1]]
            out["C04"].append(H(group, P + n, "t", timeout=2400, mem=20, mode="full", replay="native:pw_params" if ln else "native:arbitrary_len",
                                schema=[("pass", "bytes:1"), ("blob", "bytes:%d" % ln)] if ln else [],
                                replay_args={"backend": name, "op": "pw", "n": ln}, doc="%s: get_params + pw_unwrap_key on arbitrary bytes of length %d (above the minimum: every parameter block reaches the KDF parameter validation)" % (name, ln)))
        if name in ("v4", "v2"):
            out["C05"].append(H(group, P + "c05_pbkw_mem_domain", q, timeout=1200, mem=14, mode="lean", replay="playback",
                                doc="%s PBKW: for every 64-bit memory parameter (time and parallelism fixed at 65792) pw_wrap_key reaches the KDF iff the memory is a multiple of 1024 bytes whose KiB count fits u32 and is >= 8 * parallelism; otherwise it returns an error without calling the KDF" % name))
            out["C04"].append(H(group, P + "c04_pw_unwrap_to_kdf", q, timeout=1500, mem=14, mode="full", replay="native:pw_params",
                                schema=[("pass", "bytes:1"), ("blob", "bytes:89")], replay_args={"backend": name, "op": "pw", "n": 89},
                                doc="%s: get_params + pw_unwrap_key on every 89-byte blob (all salts, cost parameters, nonces): no panic between parsing and the entry of Argon2 (the argon2 model keeps the crate's `p_cost * 8` arithmetic); the path ends at the KDF" % name))
    if pke:
        out["C05"].append(H(group, P + "pke_roundtrip_", q, timeout=1800, mem=14, mode="lean", replay="native:pke", schema=[],
                            replay_args={"backend": name, "w": 255, "out_len": sizes["pke_len"], "loops": sizes.get("pke_loops", 300)},
                            doc="%s PKE: seal to a generated recipient then unseal; output is exactly %d bytes" % (name, sizes["pke_len"])))
        for n, w in (("pke_tamper_w0_bit", 0), ("pke_tamper_w1_other_rcpt", 1), ("pke_tamper_w2_trunc", 2), ("pke_tamper_w3_extend", 3)):
            out["C06"].append(H(group, P + n, q if w == 0 else "t", timeout=1800, mem=14, mode="lean", replay="native:pke", schema=TOK,
                                replay_args={"backend": name, "w": w}, doc="%s PKE: tamper class %s must be rejected" % (name, n[11:])))
        for n in ("pke_unseal_arbitrary_below", "pke_unseal_arbitrary_exact", "pke_unseal_arbitrary_above"):
            ln = sizes["pke_len"] + {"below": -1, "exact": 0, "above": 1}[n.rsplit("_", 1)[1]]
            out["C04"].append(H(group, P + n, q if n.endswith("_exact") else "t", timeout=1800, mem=14, mode="full", replay="native:arbitrary_len", schema=[],
                                replay_args={"backend": name, "op": "pke", "n": ln}, doc="%s: unseal_key on arbitrary bytes of length %d" % (name, ln)))
    if keys:
        for n in ("c08_local_key_codec_n32", "c08_local_key_codec_n31", "c08_local_key_codec_n33", "c08_local_key_codec_n64"):
            out["C08"].append(H(group, P + n, q if n.endswith(("n32", "n33")) else "t", timeout=600, mem=14, mode="full", replay="none",
                                doc="%s local key: %s bytes are %s; encode(decode(b)) == b; clone encodes identically" % (name, n[-2:], "accepted" if n.endswith("n32") else "rejected")))
        for part, what in (("public", "the public (%d B) encoding survives decode->encode and clone unchanged" % keys["pub_len"]),
                           ("secret", "the secret (%d B) encoding survives decode->encode and clone unchanged%s" % (keys["sec_len"], "; its public half equals the derived public key" if keys.get("pub_in_secret") else "")),
                           ("rederive", "the re-parsed secret key derives the same public key")):
            out["C08"].append(H(group, P + "c08_signing_key_codec_" + part, q if part != "secret" else "t", timeout=1500, mem=14, mode="lean", replay="none", fs=4,
                                doc="%s: a generated key pair: %s" % (name, what)))
        for n in ("c08_asym_wrong_len_short", "c08_asym_wrong_len_long", "c08_asym_wrong_len_33"):
            out["C08"].append(H(group, P + n, "t", timeout=2400, mem=14, mode="lean", replay="none", doc="%s: public/secret key decoders reject byte strings of a wrong length (%s)" % (name, n.rsplit("_", 1)[1])))
        for n, ln in (("c10_pke_key_wrong_len_32", "32 = a local key"), ("c10_pke_key_wrong_len_33", "33 = a key id"), ("c10_pke_key_wrong_len_short", "secret length - 1")):
            out["C08"].append(H(group, P + n, q if n.endswith("_32") else "t", timeout=900, mem=14, mode="full", replay="none",
                                doc="%s: the PKE public/secret key decoders (same text headers as public/secret) reject byte strings of another length (%s)" % (name, ln)))
        out["C04"].append(H(group, P + "c04_key_decode_empty", q, timeout=600, mem=10, mode="full", replay="playback",
                            doc="%s: the empty byte string offered to the local, public and secret key decoders is rejected without a panic (an empty key text such as `k3.public.` parses as text)" % name))
        for n in ("c13_id_transcript_lid", "c13_id_transcript_sid", "c13_id_transcript_pid"):
            out["C13"].append(H(group, P + n, q if n.endswith("lid") else "t", timeout=600, mem=14, mode="full", replay="none",
                                doc="%s hash_key: the digest input is exactly paserk header ‖ %s ‖ key text and the id is its first 33 bytes" % (name, n[-3:])))
    for k, hs in (extra or {}).items():
        out[k] += hs
    BACKENDS[name] = out
    return out


_EXTRA16 = lambda g, nm: {"C16": [
    H(g, "proofs::pw_rng_fail_closed_at0", "qt", timeout=900, mode="lean", replay="native:rng_fail", schema=[], replay_args={"backend": nm, "op": "pw", "at": 0}, doc="%s PBKW: failure of the salt draw only => Err" % nm),
    H(g, "proofs::pw_rng_fail_closed_at1", "qt", timeout=900, mode="lean", replay="native:rng_fail", schema=[], replay_args={"backend": nm, "op": "pw", "at": 1}, doc="%s PBKW: failure of the nonce draw only => Err" % nm),
    H(g, "proofs::pke_rng_fail_closed_", "qt", timeout=1200, mode="lean", replay="native:rng_fail", schema=[], replay_args={"backend": nm, "op": "pke", "at": 0}, doc="%s PKE: failure of the ephemeral-key draw => Err" % nm)]}
_v4 = l2_backend("v4", "v4", True, {"secret_len": 64, "pke_len": 96, "nonce": 32, "tag": 32, "sig": 64, "pie_over": 64, "pw_over": 88}, keys={"pub_len": 32, "sec_len": 64, "pub_in_secret": True}, extra={
    "C16": [H("v4", "proofs::pw_pal_params_reach_kdf", "qt", timeout=600, mode="lean", replay="none", doc="v4 PBKW: witness for the RNG harnesses — with the byte-palindromic cost parameters they use and a healthy RNG, pw_wrap_key reaches the KDF"),
            H("v4", "proofs::local_nonce_is_draw_", "qt", timeout=600, mode="lean", replay="none", doc="v4: the token nonce is exactly the drawn randomness (freshness inherited from the RNG)"),
            ] + _EXTRA16("v4", "v4")["C16"]})


# ------------------------------------------------------------------------------------------------
# property assembly
# ------------------------------------------------------------------------------------------------
L2_MODELS = [
    "vmodel::oracle: ideal function — equal transcript => equal output; different transcript (same primitive) => outputs differ in their first 16 bytes; after the harness announces the adversary's message (forbid) a never-queried transcript's output differs from every 16-byte window of that message",
    "getrandom 0.3 model: fill() writes arbitrary bytes or fails at an armed draw index",
    "blake2 / sha2 / hmac / hkdf / pbkdf2 / argon2 models: ideal functions of their recorded inputs (argon2 ParamsBuilder::build ranges as in argon2 0.5.3)",
    "chacha20 / chacha20poly1305 models: keystream block = ideal function of (key, nonce, 0); AEAD tag = ideal function of (key, nonce, aad, ciphertext), checked before XOR; one 64-byte block per instance",
    "ed25519-dalek / curve25519-dalek models: public key = injective ideal function of the scalar; signature = ideal function of (public key, message), verification accepts exactly it; X25519 commutative ideal function of the unordered pair of public points; from_bytes Ok iff an uninterpreted validity predicate",
    "stub: paseto_core::pae::pre_auth_encode -> l2::pae_model (index-loop spec model; the C15 harnesses show the real function issues exactly this write sequence)",
]
L2_ASSUME = ["ideal-primitive model of the leaf crypto crates (every contract point listed under models_and_stubs)",
             "Kani lean mode for protocol harnesses: memory-safety/overflow/reachability instrumentation off, property assertions, panics and unwinding assertions on (C04 harnesses run with every check on)",
             "Result<_, PasetoError> values are consumed with mem::forget (drop glue of Box<dyn Error> is not explored)"]


def _collect(prop, backends=None):
    hs = []
    for b, tab in BACKENDS.items():
        if backends and b not in backends:
            continue
        hs += tab.get(prop, [])
    return hs


def T(n, tiers="qt", timeout=900, mode="nomem", doc="", mem=12):
    return H("core_units", "tokens::" + n, tiers, timeout=timeout, mem=mem, mode=mode, doc=doc)


_l3_unseal = [
    T("l3_unseal_exact_p3_f0_a0", doc="L3: unseal of a parsed token (payload 3 B, trailing dot, no assertion) over an arbitrary backend/decoder/validator: Ok iff all three accept; error kinds; call order; decoder/validator never run on an unauthenticated token", mode="full"),
    T("l3_unseal_exact_p2_f0_a1_nodot", "t", mode="full", doc="L3: same, no footer segment, 1-byte assertion"),
    T("l3_unseal_exact_p4_f2_a1", "t", mode="full", doc="L3: same, 4-byte payload, 2-byte footer, 1-byte assertion"),
    T("l3_unseal_exact_p0_f1_a2", "t", mode="full", doc="L3: same, empty payload"),
    T("l3_unseal_exact_public", "qt", mode="full", doc="L3: verify() path (purpose Public)"),
]
_l3_seal = [
    T("l3_seal_path_n2_m1_f0_a0_r3", "t", timeout=3000, mem=28, mode="full", doc="L3: seal (library nonce path) -> Display -> FromStr -> unseal hands the backend back exactly the bytes it produced; nonce/encode/seal failures propagate"),
    T("l3_seal_path_n0_m2_f2_a1_r4", "t", timeout=3000, mem=28, mode="full", doc="L3: same with footer and assertion (public-style empty nonce)"),
    T("l3_seal_path_n3_m0_f1_a2_r5", "t", timeout=3000, mem=28, mode="full", doc="L3: same, empty message"),
    T("l3_unit_footer_present", "t", timeout=1500, mode="full", doc="L3: a token with a footer does not parse with the () footer type"),
    T("l3_unit_footer_absent_dot", "t", timeout=1500, mode="full", doc="L3: trailing '.' (empty footer) parses with () and prints without the dot"),
    T("l3_unit_footer_absent_nodot", "qt", timeout=1500, mode="full", doc="L3: no footer parses with () and prints identically"),
]

PROPS["C01"] = Prop(
    "C01", _l3_seal + _collect("C01"),
    explanation="L2: each backend's real seal/unseal code runs over ideal primitives with key, RNG output, message, footer and assertion symbolic: sealing through the library's own nonce() path succeeds, has the spec's length and unseals to the same bytes. L3: the generic UnsealedToken::seal / Display / FromStr / SealedToken::unseal code of paseto-core runs over an arbitrary backend, showing the bytes a backend produced are exactly the bytes it is later asked to unseal, with footer and assertion unchanged.",
    functions=["paseto_core::tokens::{UnsealedToken::seal, dangerous_seal_with_nonce, SealedToken::unseal}", "paseto_core::encodings::{Display, FromStr for SealedToken}",
               "<backend>::core::{local,public}::{nonce, dangerous_seal_with_nonce, unseal, random, unsealing_key}"],
    bounds={"quick": "per backend: local |m|=3 |f|=2 (|a|=1 where supported), public same (v3-aws-lc: sealing side only); L3: unit footer, token without footer; unwind 150 with unwinding assertions",
            "thorough": "adds |m| in {0,17} (AES block boundary), empty footer/assertion, L3 shapes with footer/assertion, () footer cases"},
    outside=["paseto-v3-aws-lc: verification of public tokens and PKE are not reached (symbolic execution of the FFI wrappers' verify side does not finish, DESIGN.md 7.6); paseto-v1 public tokens and PKE (RSA is not modelled)",
             "payloads longer than 17 bytes / more than one 64-byte ChaCha block (model bound); the quantifier's 1 MiB payloads",
             "the real primitives (only their contract is modelled); byte-level agreement between libraries"],
    models=L2_MODELS, assumptions=L2_ASSUME)

PROPS["C02"] = Prop(
    "C02", _collect("C02"),
    explanation="From a genuinely sealed token (library nonce path, symbolic key/message/footer/assertion/RNG) each tamper class is applied and unseal must return Err: one symbolic bit anywhere in nonce/ciphertext/tag/signature; a bit in footer or assertion; footer/assertion grown or shrunk; bytes moved across the footer|assertion and message|footer boundaries; truncation/extension at either end; any other key; v1/v2 with a non-empty assertion. Under the ideal-MAC/signature model Err follows iff the authenticated transcript covers the changed byte and the comparison covers the whole tag and precedes decryption.",
    functions=["<backend>::core::local::{unseal, keys, preauth_local}", "<backend>::core::public::{unseal, preauth_public}", "digest::Mac::verify / constant_time compare (real code)"],
    bounds={"quick": "per backend: payload-bit (|m|=2,|f|=1), ciphertext->footer shift, truncation, other key (+ footer->assertion shift where supported); public: payload-bit, message->footer shift, extension",
            "thorough": "all 15 classes x {local, public}; |m|=2 |f|=2 |a|=2"},
    outside=["paseto-v3-aws-lc: verification of public tokens and PKE are not reached (symbolic execution of the FFI wrappers' verify side does not finish, DESIGN.md 7.6); paseto-v1 public tokens and PKE (RSA is not modelled)", "simultaneous corruption of several fields (accepted with negligible probability by any MAC)", "messages longer than 2 bytes in the tamper harnesses"],
    models=L2_MODELS, assumptions=L2_ASSUME)

PROPS["C12"] = Prop(
    "C12", _l3_unseal + _collect("C12"),
    explanation="L3: for every backend behaviour, when V::unseal returns Err the payload decoder and the validator are never invoked and the error returned is the backend's own kind. L2: on a token with one flipped bit the stream cipher model's keystream counter is unchanged (verify-then-decrypt) and the error kind is CryptoError regardless of content.",
    functions=["paseto_core::tokens::SealedToken::unseal", "<backend>::core::local::unseal"],
    bounds={"quick": "L3 payload 3 B; L2 per backend |m|=2 single symbolic bit", "thorough": "L3 all shapes"},
    outside=["'footer reachable only through unverified_footer' is an API-surface fact decided by the compiler, not a solver query"],
    models=L2_MODELS + ["L3: arbitrary backend AV (every trait method returns arbitrary Ok/Err and bytes), recording Payload/Validate"], assumptions=L2_ASSUME)

_val = [H("core_units", "validation::" + n, "qt", timeout=300, doc=d) for n, d in [
    ("val_and_then_exact", "and_then chains of three symbolic validators accept iff all accept; the first failing member's error is reported"),
    ("val_nested_depth3", "nesting depth 3 inside Box"),
    ("val_slice_vec_n0", "Vec<T> and [T] of length 0 accept"),
    ("val_slice_vec_n1", "Vec<T> and [T] of length 1"),
    ("val_slice_vec_n3", "Vec<T> and [T] of length 3 accept iff every member accepts, each member consulted"),
    ("val_pointers_transparent", "Box<T>, Box<dyn Validate>, Rc<T>, Arc<T> are transparent"),
    ("val_map_and_novalidation", "map validates the projection; NoValidation accepts everything")]]
_jv = [H("json_units", "validators::" + n, t, timeout=2400 if "leeway_exact" in n or "leeway_both" in n else 1200, doc=d) for n, t, d in [
    ("time_exact", "qt", "Time: accept iff (no exp or exp >= now) and (no nbf or nbf <= now); all timestamps within ±2^36 s at ns resolution"),
    ("time_leeway_case0_borrow", "qt", "TimeWithLeeway at now=1000.000000500 s, leeway 1.5 s (nanosecond borrow): exp/nbf and their presence symbolic; both bounds widened by exactly the leeway"),
    ("time_leeway_case1_carry", "qt", "TimeWithLeeway at now=1000.9 s, leeway 0.25 s (nanosecond carry, sub-second leeway)"),
    ("time_leeway_case2_large", "t", "TimeWithLeeway at now=1700000000.123456789 s, leeway 3600.999999999 s"),
    ("time_leeway_case3_whole", "t", "TimeWithLeeway, whole-second leeway 2 s"),
    ("time_leeway_case4_1ns", "qt", "TimeWithLeeway, leeway of 1 ns at the epoch"),
    ("time_leeway_case5_zero", "t", "TimeWithLeeway with zero leeway equals Time"),
    ("time_leeway_case6_negative_now", "t", "TimeWithLeeway with now before the epoch, leeway 7.999999998 s"),

    ("has_expiry_exact", "qt", "HasExpiry accepts iff exp is present"),
    ("subject_2_2", "qt", "ForSubject: present and equal (2-byte strings), decoys in the other claims"),
    ("subject_1_2", "t", "ForSubject: different lengths never accepted"),
    ("subject_0_0", "t", "ForSubject: empty strings; absent claim rejected"),
    ("subject_257_1", "t", "ForSubject: claim of 257 bytes vs expected 1 byte (lengths equal mod 256) is rejected for all contents"),
    ("issuer_1_257", "t", "FromIssuer: 1-byte claim vs 257-byte expected value"), ("audience_256_0", "t", "ForAudience: 256-byte claim vs empty expected value"),
    ("issuer_3_3", "qt", "FromIssuer 3-byte strings"), ("issuer_2_3", "t", "FromIssuer different lengths"),
    ("audience_2_2", "qt", "ForAudience 2-byte strings"), ("audience_3_1", "t", "ForAudience different lengths")]]

PROPS["C11"] = Prop(
    "C11", _l3_unseal[:1] + [_l3_unseal[-1]] + _val + _jv,
    explanation="L3: unseal returns claims iff backend, decoder and validator all accept, for a validator with a symbolic verdict. Combinators: member verdicts are symbolic; and_then / [T] / Vec / Box / Rc / Arc / map / NoValidation accept iff the conjunction does. JSON validators: exp/nbf/now/leeway symbolic through the real jiff::Timestamp comparison and Timestamp±Duration arithmetic against a multiplication-free (seconds, nanoseconds) lexicographic oracle.",
    functions=["paseto_core::validation::*", "paseto_core::tokens::SealedToken::unseal", "paseto_json::{Time, TimeWithLeeway, HasExpiry, ForSubject, FromIssuer, ForAudience}::validate"],
    bounds={"quick": "|seconds| < 2^36, every nanosecond value, leeway < 2^30 s; strings of 2-3 ASCII bytes; combinator depth 3, slices up to 3",
            "thorough": "adds presence-symbolic leeway harness, length-mismatch string cases, remaining L3 shapes"},
    outside=["timestamps outside ±2^36 s (jiff's range is wider)", "strings longer than 3 bytes / non-ASCII (comparison is byte-wise memcmp)"],
    models=["none: real paseto-core, paseto-json and jiff code"], assumptions=["Kani/CBMC soundness"])

_pae = [H("core_units", "pae::" + n, t, timeout=to, mem=14, doc=d) for n, t, to, d in [
    ("pae_n0", "qt", 300, "N=0"),
    ("pae_n1_frag0123", "qt", 900, "N=1, 0..3 fragments of symbolic length 0..600"),
    ("pae_n2", "qt", 1500, "N=2, fragment lengths symbolic 0..600"),
    ("pae_n3_header3", "t", 1500, "N=3 (v2 local / v1,v2 public shape): header in three fragments"),
    ("pae_n4_public", "t", 1800, "N=4 (v4 public shape)"),
    ("pae_n5_local", "t", 1800, "N=5 (v3/v4 local shape), symbolic lengths up to 600"),
    ("pae_n5_v3public", "t", 1800, "N=5 (v3 public shape, key first)"),
    ("pae_n5_local_small", "t", 1500, "N=5 local shape, fragment lengths 0..2 (quick variant)"),
    ("pae_n4_public_small", "t", 1500, "N=4 public shape, fragment lengths 0..2 (quick variant)"),
    # not registered (kept in pae.rs): pae_n8 (OOM at 14 GB), pae_vec_bytes (40 min timeout: the Vec writer's realloc chain),
    # pae_boundary_shift (30 min timeout) -- byte-level framing rests on the call-recording writer harnesses above
    ]]
PROPS["C15"] = Prop(
    "C15", _pae,
    explanation="The real pre_auth_encode<N> is executed with a writer that records every write as (pointer, length, 8-byte head); the harness walks that log against the spec: LE64(N), then per piece LE64(total length) followed by its fragments, by pointer identity and length — so contents are arbitrary and fragment lengths symbolic up to 600. Injectivity of the framing follows from the length prefixes being exactly the spec's; the byte-level Vec writer and boundary-shift harnesses exist in pae.rs but do not finish within 40 minutes and are not registered.",
    functions=["paseto_core::pae::pre_auth_encode"],
    bounds={"quick": "N in {0,1,2}; fragments per piece 0..3; fragment lengths symbolic 0..600",
            "thorough": "N in {0,1,2,3,4,5} in the shapes the backends use (header in three fragments, v3 public key-first shape); fragment lengths symbolic 0..600"},
    outside=["N >= 6 (no backend uses more than 5 pieces)", "the Vec<u8> WriteBytes impl byte for byte (extend_from_slice)", "the digest/MAC adapters of each backend (one-line forwards to update(), exercised in the L2 harnesses through the hash models' transcripts)"],
    models=["none"], assumptions=["pointer identity + equal length of a written fragment implies identical bytes"])

PROPS["C05"] = Prop(
    "C05", _collect("C05"),
    explanation="Per backend: pie_wrap_key->pie_unwrap_key, pw_wrap_key->pw_unwrap_key (default parameters and every parameter block the backend's parser yields) and seal_key->unseal_key over ideal primitives with wrapping key, password, wrapped key bytes and RNG output symbolic: the operation succeeds, the output has exactly the length the format prescribes, and undoing it returns the same bytes.",
    functions=["<backend>::core::pie_wrap::{pie_wrap_key, pie_unwrap_key}", "<backend>::core::pw_wrap::{pw_wrap_key, pw_unwrap_key, get_params, Params::pbkdf}", "<backend>::core::pke::{seal_key, unseal_key}"],
    bounds={"quick": "v4, v2: PIE local key (32 B); v4: PKE to a generated recipient; v4: PBKW memory-parameter domain (all 64-bit values)",
            "thorough": "adds what has a recorded pass (see harnesses_built_but_not_registered): secret keys, other backends, PBKDF2-backed PBKW round trips"},
    outside=["PBKW round trip / tamper / RNG harnesses for paseto-v2, -v4 and -v4-sodium (unresolved engine discrepancy on the zerocopy cost-parameter struct, DESIGN.md 7.2)", "paseto-v3-aws-lc: verification of public tokens and PKE are not reached (symbolic execution of the FFI wrappers' verify side does not finish, DESIGN.md 7.6); paseto-v1 public tokens and PKE (RSA is not modelled)", "passwords longer than 2 bytes (they only enter the KDF oracle)", "the real KDFs' cost/behaviour"], models=L2_MODELS, assumptions=L2_ASSUME)

PROPS["C06"] = Prop(
    "C06", _collect("C06"),
    explanation="From a genuinely produced PIE / PBKW / PKE blob each tamper class must make unwrap/unseal return Err: one symbolic bit anywhere (tag, nonce, salt, parameters, ephemeral key, ciphertext), header relabel local<->secret, another wrapping key / password (same length, longer, shorter) / recipient, truncation, extension.",
    functions=["<backend>::core::{pie_wrap, pw_wrap, pke}::* incl. auth()"],
    bounds={"quick": "v4: PIE bit + relabel, PKE bit; v3: PIE bit", "thorough": "adds the classes and backends with a recorded pass (see harnesses_built_but_not_registered)"},
    outside=["PBKW round trip / tamper / RNG harnesses for paseto-v2, -v4 and -v4-sodium (unresolved engine discrepancy on the zerocopy cost-parameter struct, DESIGN.md 7.2)", "paseto-v3-aws-lc: verification of public tokens and PKE are not reached (symbolic execution of the FFI wrappers' verify side does not finish, DESIGN.md 7.6); paseto-v1 public tokens and PKE (RSA is not modelled)", "relabel to another version's header (same code with another constant; the version prefix is part of the MAC transcript shown by the bit/relabel classes)"],
    models=L2_MODELS, assumptions=L2_ASSUME)

PROPS["C16"] = Prop(
    "C16", _collect("C16"),
    explanation="Fail closed: the RNG model is armed to fail at a chosen draw index of nonce()/random()/pie_wrap_key/pw_wrap_key (both draws)/seal_key; the operation must return Err. Freshness is inherited from the RNG: the nonce field equals the drawn bytes (v3/v4), so distinct draws give distinct nonces for all keys and messages.",
    functions=["<backend>::core::*::{nonce, random, pie_wrap_key, pw_wrap_key, seal_key}"],
    bounds={"quick": "every draw index of each operation (1 or 2 draws)", "thorough": "same"},
    outside=["PBKW round trip / tamper / RNG harnesses for paseto-v2, -v4 and -v4-sodium (unresolved engine discrepancy on the zerocopy cost-parameter struct, DESIGN.md 7.2)", "PKE RNG failure for the P-384 backends (the ephemeral key is drawn in a rejection loop the engine cannot bound)",
             "the statistical claim that the OS RNG does not repeat over 10^5 calls (not a property of this code)",
             "draws made inside library models without an error channel (RSA key generation, libsodium random::*)"],
    models=L2_MODELS, assumptions=L2_ASSUME)

# API-level harnesses run without CBMC's pointer instrumentation (mode nomem): in full mode the SAT
# instances exceed 14 GB; Rust-level panics (index, slice, unwrap, overflow) are still checked, and
# paseto-core's only unsafe block (base64.rs) is covered in full mode by the base64 harnesses
_api = [H("core_units", "api::" + n, t, timeout=to, mem=12, mode="nomem", doc=d) for n, t, to, d in [
    # every byte symbolic, header included (decision only: accepted <=> == header + canonical tail)
    ("keytext_local_t0", "qt", 900, "KeyText<Local>: every 9-byte string; accepted iff == 'k4.local.'"),
    ("keytext_local_short", "t", 600, "KeyText<Local>: 7-byte strings (shorter than the header) are rejected"),
    ("keytext_local_hdr_t2", "t", 1500, "KeyText<Local>: every 11-byte string; accepted iff 'k4.local.' + 2 canonical chars"),
    ("keytext_secret_hdr_t0", "t", 900, "KeyText<Secret>: every 10-byte string; accepted iff == 'k4.secret.'"),
    ("keytext_public_hdr_t0", "t", 900, "KeyText<Public>: every 10-byte string; accepted iff == 'k4.public.'"),
    ("keytext_v3_local_hdr_t0", "t", 900, "KeyText (default PASERK header k3): every 9-byte string"),
    ("pie_local_hdr_t0", "t", 1500, "PieWrappedKey<Local>: every 18-byte string; accepted iff == 'k4.local-wrap.pie.'"),
    ("pie_secret_hdr_t0", "t", 1500, "PieWrappedKey<Secret>: every 19-byte string"),
    ("pw_local_hdr_t0", "t", 1200, "PasswordWrappedKey<Local>: every 12-byte string"),
    ("pw_secret_hdr_t0", "t", 1200, "PasswordWrappedKey<Secret>: every 13-byte string"),
    ("seal_hdr_t0", "qt", 900, "SealedKey: every 8-byte string; accepted iff == 'k4.seal.'"),
    ("seal_hdr_t2", "t", 1200, "SealedKey: every 10-byte string"),
    ("token_hdr_p0_nodot", "qt", 900, "SealedToken: every 9-byte string without '.' after byte 9; accepted iff == 'v4.local.'"),
    ("token_hdr_p2_nodot", "t", 1500, "SealedToken: every 11-byte string, no dot in the tail"),
    ("token_hdr_p0_dot_f0", "t", 1200, "SealedToken: every 10-byte string whose 10th byte is '.'"),
    # the parser's own header (concrete) followed by a fully symbolic tail: strict canonical base64url + Display round trip
    ("keytext_local_t1", "t", 600, "KeyText<Local>: header + 1 char (never valid)"),
    ("keytext_local_t2", "qt", 900, "KeyText<Local>: header + 2 chars: strict canonical base64url and Display round trip"),
    ("keytext_local_t3", "t", 1500, "KeyText<Local>: header + 3 chars"),
    ("keytext_local_t4", "t", 900, "KeyText<Local>: header + 4 chars"),
    ("keytext_local_t6", "t", 1200, "KeyText<Local>: header + 6 chars"),
    ("keytext_local_t7", "t", 1500, "KeyText<Local>: header + 7 chars"),
    ("keytext_secret_t3", "t", 900, "KeyText<Secret>"), ("keytext_public_t2", "t", 900, "KeyText<Public>"),
    ("keytext_v3_local_t3", "t", 900, "KeyText with the default PASERK header k3"),
    ("pie_local_t2", "qt", 900, "PieWrappedKey<Local>: header + 2 chars"), ("pw_local_t2", "qt", 900, "PasswordWrappedKey<Local>: header + 2 chars"), ("seal_t2", "qt", 900, "SealedKey: header + 2 chars"),
    ("pie_local_t3", "t", 1500, "PieWrappedKey<Local> FromStr/Display"), ("pie_secret_t4", "t", 900, "PieWrappedKey<Secret>"),
    ("pw_local_t3", "t", 1500, "PasswordWrappedKey<Local>"), ("pw_secret_t2", "t", 900, "PasswordWrappedKey<Secret>"),
    ("seal_t3", "t", 1500, "SealedKey"), ("seal_t4", "t", 900, "SealedKey"),
    ("keyid_lid_44", "t", 1800, "KeyId<Local>: header + every 44-byte tail; accepted iff canonical; Display round trip"),
    ("keyid_lid_43", "t", 1800, "KeyId: 43 characters (32 bytes) rejected"), ("keyid_lid_46", "t", 1800, "KeyId: 46 characters (34 bytes) rejected"),
    ("keyid_sid_44", "t", 1800, "KeyId<Secret>"), ("keyid_pid_44", "t", 1800, "KeyId<Public>"),
    ("key_fromstr_is_keytext_then_decode", "qt", 900, "Key::from_str = KeyText::from_str then V::decode on exactly the decoded bytes (header fixed, 4-char symbolic tail)"),
    ("keyid_roundtrip_eq_ord_hash", "t", 1800, "KeyId: FromStr(Display(id)) == id; Eq/Ord/Hash agree with the 33 bytes"),
    ("keyid_hdr_cross_sid_from_lid", "qt", 1200, "KeyId<Secret>: every 33-byte id under the header k4.lid. is rejected"),
    ("keyid_hdr_cross_sid_from_pid", "t", 1200, "KeyId<Secret> rejects k4.pid."), ("keyid_hdr_cross_sid_from_k3", "t", 1200, "KeyId<Secret> (k4) rejects k3.sid."),
    ("keyid_hdr_cross_lid_from_sid", "t", 1200, "KeyId<Local> rejects k4.sid."), ("keyid_hdr_cross_lid_from_pid", "t", 1200, "KeyId<Local> rejects k4.pid."),
    ("keyid_hdr_cross_pid_from_lid", "t", 1200, "KeyId<Public> rejects k4.lid."), ("keyid_hdr_cross_pid_from_sid", "t", 1200, "KeyId<Public> rejects k4.sid."),
    ("keyid_hdr_kind_letter", "qt", 1500, "KeyId<Secret>: symbolic kind letter, k4.?id.AAAA…: accepted iff ? == 's'"),
    ("token_shape_plain", "t", 600, "concrete companion: v4.local.AAAA accepted and re-serialised"), 
    ("token_shape_footer", "t", 600, "concrete: payload.footer"), ("token_shape_two_trailing_dots", "qt", 600, "concrete: payload.. rejected"),
    ("token_shape_footer_trailing_dot", "qt", 600, "concrete: payload.footer. rejected"), ("token_shape_three_segments", "t", 600, "concrete: three segments rejected"),

    ("token_p2_nodot", "qt", 900, "SealedToken: 'v4.local.' + every 2-byte tail without '.': accepted iff canonical base64url; Display round trip"),
    ("token_p2_dot_f1", "qt", 900, "SealedToken 2-char payload, '.', one arbitrary byte (a 1-char footer is never valid, a second '.' is rejected)"),
    ("token_p4_nodot", "t", 1500, "SealedToken: 'v4.local.' + every 4-byte tail without '.', accepted iff canonical base64url; Display round trip"),
    ("token_p3_nodot", "t", 900, "SealedToken, 3-char payload"), ("token_p0_nodot", "t", 600, "SealedToken, empty payload"),
    ("token_p4_dot_f2", "t", 900, "SealedToken payload.footer; a second '.' in the footer segment is rejected"),
    ("token_p3_dot_f3", "t", 900, "SealedToken 3-char payload, 3-char footer"),
    ("token_p0_dot_f4", "t", 900, "SealedToken empty payload, 4-char footer"),
    ("token_p2_dot_f4_dot", "t", 900, "SealedToken 2-char payload, footer region of 4 arbitrary bytes (extra segments rejected)")]]
PROPS["C09"].harnesses += _api
PROPS["C09"].functions += ["paseto_core::paserk::{KeyText, KeyId, PieWrappedKey, PasswordWrappedKey, SealedKey}::{from_str, fmt}", "paseto_core::key::Key::from_str",
                           "paseto_core::encodings::{FromStr, Display for SealedToken}"]
PROPS["C09"].bounds["quick"] += "; API level: fully symbolic strings of exactly header length (KeyText, SealedKey, SealedToken), and concrete header + fully symbolic tails of 2..4 characters per parser"
PROPS["C09"].bounds["thorough"] += "; API level: fully symbolic strings of header length (+2) for every parser; concrete header + symbolic tails of 1..7 characters, key ids of 43/44/46 characters, token strings up to 16 bytes with every dot position"
PROPS["C09"].models = ["core::slice::memchr::memchr (used by str::split_once('.') in the token parser) is stubbed by a position-announcing version that ASSERTS the announced position is the first '.', so segment lengths stay concrete; a wrong announcement fails the harness",
                       "arbitrary backend AV for V::decode / Payload / Footer (L3)"]

PROPS["C04"] = Prop(
    "C04", [h for h in PROPS["C09"].harnesses if ("decode_strict" in h.name or "small_dst" in h.name or h.name.startswith("api::"))] + _l3_unseal[:1] + _collect("C04"),
    explanation="Kani's default checks (panic, unwrap/expect, index and slice bounds, arithmetic overflow, invalid or misaligned pointer dereference, bad dealloc) are the assertion; inputs are arbitrary. L1: base64 decode on every string of each length and every FromStr/Display pair of paseto-core on fully symbolic strings. L2: each backend's unseal / pie_unwrap_key / get_params / pw_unwrap_key / unseal_key on arbitrary byte strings of the lengths around each minimum (n=0, min-1, min, min+1..2), in full-check mode.",
    functions=["paseto_core::base64::*", "every FromStr/Display of paseto-core", "<backend>::core::{local,public}::unseal", "<backend>::core::{pie_wrap,pw_wrap,pke}::{pie_unwrap_key, get_params, pw_unwrap_key, unseal_key}"],
    bounds={"quick": "strings up to header+4 chars; payload lengths min-1 and min per operation", "thorough": "adds lengths 0 and min+1/min+2, longer strings"},
    outside=["panics or UB inside the real crypto libraries and C code (modelled by contract)", "out-of-memory; PBKW cost above the budget", "AddressSanitizer runs (another technique)"],
    models=L2_MODELS + PROPS["C09"].models, assumptions=["Kani's memory model and default checks"])


def _demote(tab, keep):
    """reduced quick set for a backend: only harnesses whose name contains one of `keep` stay quick"""
    for hs in tab.values():
        for h in hs:
            if "q" in h.tiers and not any(k in h.name for k in keep):
                h.tiers = "t"
    return tab


_EXTRA16 = lambda g, nm: {"C16": [
    H(g, "proofs::pw_rng_fail_closed_at0", "qt", timeout=900, mode="lean", replay="native:rng_fail", schema=[], replay_args={"backend": nm, "op": "pw", "at": 0}, doc="%s PBKW: failure of the salt draw only => Err" % nm),
    H(g, "proofs::pw_rng_fail_closed_at1", "qt", timeout=900, mode="lean", replay="native:rng_fail", schema=[], replay_args={"backend": nm, "op": "pw", "at": 1}, doc="%s PBKW: failure of the nonce draw only => Err" % nm),
    H(g, "proofs::pke_rng_fail_closed_", "qt", timeout=1200, mode="lean", replay="native:rng_fail", schema=[], replay_args={"backend": nm, "op": "pke", "at": 0}, doc="%s PKE: failure of the ephemeral-key draw => Err" % nm)]}
_x3 = _EXTRA16("v3", "v3")
# v3 PKE draws its ephemeral key in a rejection loop (p384 NonZeroScalar::random): the RNG fail-closed harness does not finish (1200 s)
_x3["C16"] = [h for h in _x3["C16"] if "pke_rng" not in h.name]
_x3["C16"].append(H("v3", "proofs::local_nonce_is_draw_", "qt", timeout=600, mode="lean", replay="none", doc="v3: the token nonce is exactly the drawn randomness"))
_v3 = l2_backend("v3", "v3", True, {"secret_len": 48, "pke_len": 129, "nonce": 32, "tag": 48, "sig": 96, "pie_over": 80, "pw_over": 100}, keys={"pub_len": 49, "sec_len": 48}, extra=_x3)
_v2 = l2_backend("v2", "v2", False, {"secret_len": 64, "pke_len": 96, "nonce": 24, "tag": 16, "sig": 64, "pie_over": 64, "pw_over": 88}, keys={"pub_len": 32, "sec_len": 64, "pub_in_secret": True}, extra=_EXTRA16("v2", "v2"))
_xa = {"C16": [H("v3awslc", "proofs::pw_rng_fail_closed_at0", "t", timeout=900, mode="lean", replay="none", doc="v3-aws-lc PBKW: failure of the salt draw only => Err"),
               H("v3awslc", "proofs::pw_rng_fail_closed_at1", "t", timeout=900, mode="lean", replay="none", doc="v3-aws-lc PBKW: failure of the nonce draw only => Err"),
               H("v3awslc", "proofs::local_nonce_is_draw_", "t", timeout=600, mode="lean", replay="none", doc="v3-aws-lc: the token nonce is exactly the drawn randomness")],
       "C04": [H("v3awslc", "proofs::c04_ffi_ledger_sign", "qt", timeout=1500, mem=14, mode="lean", replay="none", fs=4,
                 doc="v3-aws-lc unsafe FFI wrappers (lc/mod.rs, lc/ptr.rs): key parsing, public-key derivation, signing, signature serialisation, clone and encode free every aws-lc object exactly once and never use one after free (alloc/free ledger and use-after-free assertions of the FFI model; lean mode: CBMC's own pointer instrumentation is off for this harness, it is on for the key-parse ledger harness)"),
               H("v3awslc", "proofs::c04_ffi_ledger_key_parse", "qt", timeout=1500, mem=14, mode="full", replay="none",
                 doc="v3-aws-lc FFI wrappers: parsing arbitrary 48-byte secret and 49-byte public keys balances the alloc/free ledger on accept and on every reject path"),
               H("v3awslc", "proofs::c04_public_key_codec_len1", "qt", timeout=900, mem=12, mode="lean", replay="native:parse_any", schema=[], replay_args={"string": "k3.public.AA"},
                 doc="v3-aws-lc: every 1-byte string offered as k3.public is rejected or yields a key that encodes to 49 bytes (00 = point at infinity)"),
               H("v3awslc", "proofs::c04_public_key_codec_len49", "qt", timeout=900, mem=12, mode="lean", replay="none", doc="v3-aws-lc: every 49-byte string offered as k3.public is rejected or encodes to 49 bytes")]}
_va = l2_backend("v3-aws-lc", "v3awslc", True, {"secret_len": 48, "pke_len": 129, "nonce": 32, "tag": 48, "sig": 96, "pie_over": 80, "pw_over": 100, "sign_loops": 3000},
                 keys={"pub_len": 49, "sec_len": 48}, extra=_xa)
_vs = l2_backend("v4-sodium", "v4sodium", True, {"secret_len": 64, "pke_len": 96, "nonce": 32, "tag": 32, "sig": 64, "pie_over": 64, "pw_over": 88},
                 keys={"pub_len": 32, "sec_len": 64, "pub_in_secret": True}, rng_fail=False,
                 extra={"C16": [H("v4sodium", "proofs::local_nonce_is_draw_", "t", timeout=600, mode="lean", replay="none", doc="v4-sodium: the token nonce is exactly the drawn randomness")]})
# quick tiers: measured costs (14 parallel jobs): v4/v2 token harness ~4 min, v3 token harness ~10-14 min (real ctr crate),
# PKE ~10 min, PBKW >10 min / >16 GB -> PBKW round-trip and tamper harnesses are thorough-only
_PBKW_T = ["pw_roundtrip", "pw_tamper", "pw_default_must"]
_demote(_v3, ["c04_key_decode_empty", "c10_pke_key_wrong_len_32", "local_roundtrip_m3_f2", "public_roundtrip_m3_f2", "local_tamper_payload_bit", "public_tamper_payload_bit", "local_rng_fail", "public_rng_fail", "pie_rng_fail", "pw_rng_fail", "nonce_is_draw", "pie_tamper_w0", "local_unseal_arbitrary_min"])
_x1 = {"C16": [H("v1", "proofs::pw_rng_fail_closed_at0", "t", timeout=900, mode="lean", replay="native:rng_fail", schema=[], replay_args={"backend": "v1", "op": "pw", "at": 0}, doc="v1 PBKW: failure of the salt draw only => Err"),
               H("v1", "proofs::pw_rng_fail_closed_at1", "t", timeout=900, mode="lean", replay="native:rng_fail", schema=[], replay_args={"backend": "v1", "op": "pw", "at": 1}, doc="v1 PBKW: failure of the nonce draw only => Err")],
       "C13": [H("v1", "proofs::c13_id_transcript_lid", "t", timeout=600, mem=14, mode="full", replay="none", doc="v1 hash_key: the SHA-384 input is exactly k1 ‖ .lid. ‖ key text; id = first 33 bytes")]}
_v1 = l2_backend("v1", "v1", False, {"secret_len": 48, "pke_len": 592, "nonce": 32, "tag": 48, "sig": 256, "pie_over": 80, "pw_over": 100}, pke=False, public=False, extra=_x1)
_demote(_v1, [])
_demote(_va, ["c04_key_decode_empty", "public_seal_total", "local_tamper_payload_bit", "c04_ffi_ledger", "c04_public_key_codec", "local_unseal_arbitrary_min"])
_demote(_vs, ["c04_key_decode_empty", "local_roundtrip_m3_f2", "local_tamper_payload_bit", "public_tamper_payload_bit", "local_unseal_arbitrary_min"])
_demote(_v2, ["c04_key_decode_empty", "local_roundtrip_m3_f2", "public_roundtrip_m3_f2", "local_tamper_payload_bit", "aad_refused", "local_tamper_w8", "local_rng_fail", "pie_roundtrip_local",
              "local_unseal_arbitrary_min"])
_demote(_v4, ["c04_key_decode_empty", "c10_pke_key_wrong_len_32", "c08_local_key_codec_n32", "c08_signing_key_codec_public", "c08_signing_key_codec_rederive", "c13_id_transcript_lid"] + ["local_roundtrip_m3_f2", "public_roundtrip_m3_f2", "local_tamper_payload_bit", "local_tamper_w8", "local_tamper_w10", "local_tamper_w6", "local_tamper_w14",
              "public_tamper_payload_bit", "public_tamper_w8", "public_tamper_w12", "rng_fail", "nonce_is_draw", "pie_roundtrip_local", "pie_tamper_w0", "pie_tamper_w1",
              "pke_roundtrip", "pke_tamper_w0", "local_unseal_arbitrary_below", "local_unseal_arbitrary_min", "public_unseal_arbitrary_below", "pie_unwrap_arbitrary_below",
              "c04_pw_unwrap_to_kdf", "c05_pbkw_mem_domain"])
# public-token harnesses: smaller field-sensitivity limit (measured on v4: public_roundtrip 1500 s timeout -> 184 s; it slows
# PIE/PKE harnesses down, so it is per harness)
for _tab in (_v4, _v3, _v2, _va, _vs):
    for _hs in _tab.values():
        for _h in _hs:
            if "public_" in _h.name or "signing_key" in _h.name:
                _h.fs = 4
# paseto-v3-aws-lc: harnesses that run the VERIFY side (Signature::from_bytes -> ECDSA_verify behind the LcPtr wrappers) do not
# finish symbolic execution (> 900 s, > 13 GB at every setting tried; DESIGN.md 7.6) and are not registered; the sealing side,
# key parsing, the FFI ledger and all local / PIE / PBKW harnesses are.
# paseto-v2 / paseto-v4 / paseto-v4-sodium PBKW: the engine reads the two 32-bit big-endian cost fields of the zerocopy `Params` struct
# byte-swapped on this code path (the 64-bit field is read correctly; reproduced with concrete values, not reproducible in a reduced
# crate; DESIGN.md 7.2) — default parameters then look invalid and pw_wrap_key "fails" before the KDF.  Harnesses whose verdict depends
# on the default parameters being accepted are therefore not registered for these backends: they would pass (fail-closed) or fail
# (round trip) for the wrong reason.  A variant of the RNG harnesses with byte-palindromic cost parameters (kept in the v2/v4 harness
# crates) still disagreed with native execution on a seeded change (c16b) and is not registered either.  Kept: c04_pw_unwrap_to_kdf (every 32-bit value is explored, so the swap is a bijection; the
# replay offers both byte orders), c05_pbkw_mem_domain (memory field only, time/parallelism byte-palindromes), length harnesses.
_ARGON_DROP = ("pw_roundtrip", "pw_default_must", "pw_tamper", "pw_rng_fail_closed", "pw_pal_params")
for _tab in (_v4, _v2, _vs):
    for _k in list(_tab.keys()):
        _tab[_k] = [h for h in _tab[_k] if not any(x in h.name for x in _ARGON_DROP)]
_AWSLC_DROP = ("public_roundtrip", "public_tamper", "public_aad", "public_unseal_arbitrary_exact", "public_unseal_arbitrary_above", "c08_signing_key_codec_secret",
               "c08_signing_key_codec_rederive", "pke_")
for _k in list(_va.keys()):
    _va[_k] = [h for h in _va[_k] if not any(x in h.name for x in _AWSLC_DROP)]
for _p in ("C01", "C02", "C04", "C05", "C06", "C12", "C16"):
    _have = {(h.group, h.name) for h in PROPS[_p].harnesses}
    PROPS[_p].harnesses += [h for h in _collect(_p) if (h.group, h.name) not in _have]
for _P in PROPS.values():
    if getattr(_P, "harnesses", None):
        _P.harnesses = [h for h in _P.harnesses if not (h.group in ("v4", "v2", "v4sodium") and any(x in h.name for x in _ARGON_DROP))]
# trim the L1 part of the C04 / C09 quick tiers
for _h in PROPS["C04"].harnesses + PROPS["C09"].harnesses:
    if _h.group == "core_units" and "q" in _h.tiers:
        n = _h.name
        keep = ("l0_" in n or any(n.endswith(x) for x in ("strict_n0", "strict_n2", "strict_n3", "strict_n4", "strict_n5", "strict_n6", "small_dst", "roundtrip_empty",
                "roundtrip_n1", "roundtrip_n2", "roundtrip_n3", "roundtrip_n4", "agrees_n2", "agrees_n3", "keytext_local_t0", "keytext_local_t2", "keytext_local_t3",
                "pie_local_t2", "pw_local_t2", "seal_t2", "token_shape_two_trailing_dots", "token_shape_footer_trailing_dot", "token_p2_nodot", "token_p2_dot_f1", "key_fromstr_is_keytext_then_decode", "l3_unseal_exact_p3_f0_a0",
                "seal_hdr_t0", "token_hdr_p0_nodot", "keyid_hdr_cross_sid_from_lid", "keyid_hdr_kind_letter")))
        if not keep:
            _h.tiers = "t"

# ------------------------------------------------------------------------------------------------
# C03 / C07: transcript conformance (partial claims, stated)
# ------------------------------------------------------------------------------------------------
PROPS["C03"] = Prop(
    "C03", [
        H("v3", "proofs::c03_public_ecdsa_twin_accepted", "qt", timeout=1500, mem=14, mode="lean", replay="native:cross_v3_public", schema=[], replay_args={"loops": 64}, fs=4,
          doc="paseto-v3 public: the (r, n-s) twin of a valid signature is a specification-conforming signature of the same message and must be accepted (cross-backend: paseto-v3-aws-lc emits high-S signatures about half of the time)"),
        H("v3", "proofs::c03_local_ctr_counter_128bit", "qt", timeout=1800, mem=14, mode="lean", replay="native:ctr_pbkw", schema=[], replay_args={},
          doc="paseto-v3 local: with key, nonce (hence derived IV) and a 17-byte message symbolic, the two blocks fed to AES are IV and IV+1 mod 2^128 (full-width big-endian counter, as OpenSSL/aws-lc)"),
        H("v1", "proofs::c03_local_ctr_counter_128bit", "t", timeout=2400, mem=14, mode="lean", replay="native:ctr_pbkw", schema=[], replay_args={},
          doc="paseto-v1 local: the two blocks fed to AES for a 17-byte message are IV and IV+1 mod 2^128"),
        H("v4", "proofs::c03_local_transcript", "qt", timeout=1500, mem=14, mode="lean", replay="none",
          doc="paseto-v4 local: for every key/nonce/message/footer/assertion the four primitive calls (two keyed BLAKE2b derivations with the spec's domain strings, XChaCha20 keyed Ek/n2, BLAKE2b-MAC over PAE(h,n,c,f,i)) and the token layout n‖c‖t are exactly the spec's"),
    ],
    explanation="Real ciphertext bytes cannot be compared inside an ideal-primitive model, but what is fed to each primitive can, for all inputs: the harness reads the oracle's call log (and the AES model's block log, driven by the REAL ctr crate) and compares it with a reference written from the PASETO specification. PARTIAL CLAIM: built for paseto-v4 local (full transcript) and the AES-CTR counter width of paseto-v3 local; the other backends' transcripts, public tokens, and byte-level agreement of the libraries themselves are not claimed.",
    functions=["paseto_v4::core::local::{dangerous_seal_with_nonce, keys, preauth_local}, paseto_v4::core::kdf", "paseto_v3::core::local::{dangerous_seal_with_nonce, keys} + the ctr crate's counter flavour it names (real crate)", "paseto_v3::core::public::unseal (ECDSA twin acceptance)"],
    bounds={"quick": "v4: |m|=3 |f|=2 |a|=1, all keys and nonces; v3: 17-byte message (two AES blocks), all keys and nonces", "thorough": "same"},
    outside=["v1/v2/aws-lc/sodium transcripts; signature encodings; 'same primitive => same function' across libraries is an assumption, not a result"],
    models=L2_MODELS + ["aes model logs every block it is asked to encrypt; the counter sequence is produced by the real ctr crate"], assumptions=L2_ASSUME)

PROPS["C07"] = Prop(
    "C07", [
        H("v3", "proofs::c07_pie_ctr_counter_128bit", "qt", timeout=1800, mem=14, mode="lean", replay="native:ctr_pbkw", schema=[], replay_args={},
          doc="paseto-v3 PIE wrap of a 32-byte key (two AES blocks): the blocks fed to AES are IV and IV+1 mod 2^128"),
    ],
    explanation="PARTIAL CLAIM: the AES-CTR counter width used by PASERK wrapping in paseto-v3 (the same cipher type is used by PIE, PBKW and PKE) is checked against the spec's full-width big-endian counter for every wrapping key, nonce and wrapped key; a counterexample is replayed end-to-end as a spec-conforming k3.local-pw blob (built natively from the real pbkdf2/hmac/sha2/aes/ctr crates with a 128-bit counter) that paseto-v3 and paseto-v3-aws-lc must both unwrap to the wrapped key. Derivation/tag transcripts of the other wraps and parameter-domain agreement between siblings are not claimed.",
    functions=["paseto_v3::core::pie_wrap::{pie_wrap_key, wrap_keys} + ctr::Ctr64BE (real crate)"],
    bounds={"quick": "32-byte wrapped key, all wrapping keys and nonces", "thorough": "same"},
    outside=["PBKW/PKE derivation transcripts; v1, v2, v4 and the FFI backends; KDF parameter domains"],
    models=L2_MODELS, assumptions=L2_ASSUME)

PROPS["C08"] = Prop(
    "C08", _collect("C08"),
    explanation="Per backend over the ideal-primitive models: local keys are accepted iff exactly 32 bytes and re-encode to the same bytes; a generated signing key pair's public and secret encodings have the prescribed lengths, survive decode->encode and Clone unchanged, the re-parsed secret key derives the same public key, and (Ed25519) the public half stored in the secret encoding is the derived public key; byte strings of a wrong length are rejected by the public/secret decoders. Point validity (on-curve / identity / small order) is a library predicate: it is modelled as an uninterpreted predicate, so only what the paseto-rs code does with the library's verdict is checked.",
    functions=["<backend>::core::{local,public}::{HasKey::encode, HasKey::decode, Clone, unsealing_key, random}", "paseto-v3-aws-lc/src/lc/mod.rs::{SigningKey::{from_sec1_bytes, encode, clone, verifying_key}, VerifyingKey::{from_sec1_bytes, clone, compressed_pub_key}}"],
    bounds={"quick": "v4: 32/33-byte local keys, one generated key pair (all seeds)", "thorough": "all five modelled backends; local lengths 31/32/33/64; asymmetric wrong lengths (len-1, len+1, 33)"},
    outside=["which encodings the real curve libraries accept as points (identity, small order, off-curve): modelled as an uninterpreted predicate", "RSA keys (paseto-v1 has no model crate)",
             "'verifies everything it signs' is C01"],
    models=L2_MODELS, assumptions=L2_ASSUME)

_c13core = [H("core_units", "api::" + n, t, timeout=1500, mem=14, mode="nomem", doc=d) for n, t, d in [
    ("c13_id_composition_local", "qt", "Key::id() (L3): the backend hash is asked for (\".lid.\", \"k4.local.\" ‖ base64url(key bytes)); the id is the digest it returns; Display is \"k4.lid.\" ‖ base64url(33 bytes)"),
    ("c13_id_composition_secret", "t", "same for secret keys (.sid. / .secret.)"),
    ("c13_id_composition_public", "t", "same for public keys (.pid. / .public.)"),
    ("keyid_lid_44", "t", "KeyId<Local>::from_str on every 51-byte string: accepted iff header + 44 canonical characters; Display round trip"),
    ("keyid_lid_43", "t", "43 characters (32 bytes) rejected"), ("keyid_lid_46", "t", "46 characters (34 bytes) rejected"),
    ("keyid_roundtrip_eq_ord_hash", "qt", "FromStr(Display(id)) == id for all 33-byte ids; Eq / Ord / Hash agree with the bytes")]]
PROPS["C13"] = Prop(
    "C13", _c13core + _collect("C13"),
    explanation="L3: the generic Key::id() of paseto-core, over a backend whose hash_key records its arguments, hashes exactly the id header and the key's canonical PASERK text and returns the backend's digest; KeyId text parsing/printing and Eq/Ord/Hash are checked on symbolic ids. L2: each backend's hash_key feeds its hash exactly PASERK header ‖ id header ‖ key text and truncates to 33 bytes; sibling backends (v3/v3-aws-lc, v4/v4-sodium) issue the same transcript to the same ideal function, so their ids agree under 'same primitive => same function'.",
    functions=["paseto_core::key::Key::id", "paseto_core::paserk::id::{KeyId::from, Display, FromStr, Eq, Ord, Hash}", "<backend>::core::V::hash_key (IdVersion)"],
    bounds={"quick": "4-byte key material at L3; 9-byte key text at L2 (v4)", "thorough": "all kinds, all five modelled backends, id strings of 43/44/46 characters"},
    outside=["v1 PEM-vs-DER inputs (needs the real DER/PEM parser)", "agreement of the real SHA-384 / BLAKE2b implementations across libraries"],
    models=L2_MODELS + ["L3: arbitrary backend AV"], assumptions=L2_ASSUME)

PROPS["C10"] = Prop(
    "C10", [H("core_units", "api::c10_header_table", "qt", timeout=600, mode="full", doc="the eleven kind headers read from paseto-core's KeyType/SealingKey constants all start and end with '.', and none is a prefix of another (PKE kinds deliberately share .public./.secret.)"),
            H("core_units", "api::c10_no_string_accepted_twice", "t", timeout=3000, mem=20, mode="nomem", doc="one symbolic 12-byte string offered to six PASERK parsers (k4 and k3; local, secret, public, seal): at most one accepts")]
    + [h for h in PROPS["C09"].harnesses if h.name.startswith("api::") and any(x in h.name for x in ("_hdr_", "keytext_local_t0", "keytext_local_short"))]
    + [h for h in _collect("C08") if "local_key_codec" in h.name or "wrong_len" in h.name]
    + [h for h in _collect("C06") if "relabel" in h.name],
    explanation="(i) every parser accepts only strings that start with exactly its own version and kind header followed by canonical base64url (the C09 API harnesses on fully symbolic strings); (ii) the header constants are pairwise distinct and prefix-free, and a symbolic 12-byte string is accepted by at most one of six parsers; (iii) key bytes of another kind's length are rejected (C08 length harnesses); (iv) an authenticated blob whose kind header is relabelled local<->secret fails to unwrap (C06 relabel classes).",
    functions=["paseto_core::key::{KeyType, SealingKey} constants", "every FromStr of paseto-core", "<backend>::HasKey::decode", "<backend>::{pie_unwrap_key, pw_unwrap_key}"],
    bounds={"quick": "header table (prefix-freeness); every string of exactly header length for KeyText<Local>, SealedKey and SealedToken (symbolic header); every 33-byte key id under the header k4.lid. offered to KeyId<Secret>; v4 local key codec; v3/v4 PKE key wrong-length (32 B); v4 PIE relabel", "thorough": "symbolic-header strings for every parser; KeyId: every id under each other kind's header and the sibling version's, and a symbolic kind letter over a concrete tail; all backends' length and relabel harnesses that have a recorded pass (see harnesses_built_but_not_registered)"},
    outside=["relabel to another version's header (the version prefix is a constant of the same MAC transcript)", "token purposes: local and public token payloads go to different key types, which the type system separates"],
    models=PROPS["C09"].models + L2_MODELS, assumptions=L2_ASSUME)

PROPS["C14"] = Prop(
    "C14", [H("json_units", "wire::" + n, t, timeout=1500, mem=12, doc=d) for n, t, d in [
        ("serialize_emits_exactly_present_claims", "qt", "presence of each of the 7 claims symbolic: exactly the present claims are emitted, in order iss sub aud exp nbf iat jti, under their names, each with its own value (identity by address)"),
        ("deserialize_map_n0", "qt", "empty map"),
        ("deserialize_map_iss", "qt", "one member \"iss\": null or a symbolic 1-character string"),
        ("deserialize_map_sub", "t", "one member sub"), ("deserialize_map_aud", "t", "one member aud"), ("deserialize_map_jti", "t", "one member jti"),
        ("deserialize_map_exp_null", "qt", "one member exp: null"), ("deserialize_map_nbf_null", "t", "nbf: null"), ("deserialize_map_iat_null", "t", "iat: null"),
        ("deserialize_map_unknown", "qt", "one member with an unregistered name is ignored"),
        ("deserialize_map_iss_iss", "qt", "duplicate iss: null then value accepted, value then anything rejected"),
        ("deserialize_map_jti_jti", "t", "duplicate jti"), ("deserialize_map_aud_aud", "t", "duplicate aud"),
        ("deserialize_map_iss_sub", "qt", "two distinct names: each value lands in its own claim"), ("deserialize_map_sub_iss", "t", "the other order"),
        ("deserialize_map_unknown_iss", "t", "unknown then iss"), ("deserialize_map_iss_unknown", "t", "iss then unknown"),
        ("deserialize_map_exp_exp_null", "t", "exp: null twice"),
        ("deserialize_map_iss_unknown_iss", "t", "three members: iss, unknown, iss"), ("deserialize_map_sub_aud_jti", "t", "three distinct members"),
        ("deserialize_map_issuer", "t", "an unknown member whose name extends a registered one (\"issuer\") is ignored"),
        ("deserialize_map_iss_issuer", "t", "iss followed by \"issuer\": no duplicate error, iss keeps its value"),
        ("deserialize_map_ex", "t", "an unknown member whose name is a prefix of a registered one (\"ex\") is ignored"),
        ("deserialize_map_bytes_iss", "qt", "member names delivered as bytes (visit_borrowed_bytes): iss"),
        ("deserialize_map_bytes_issuer", "qt", "names as bytes: \"issuer\" is ignored"),
        ("deserialize_map_bytes_iss_issuer", "t", "names as bytes: iss then \"issuer\""),
        ("deserialize_map_bytes_ex", "t", "names as bytes: \"ex\" is ignored"),
        ("deserialize_map_bytes_jti_jti", "t", "names as bytes: duplicate jti")]],
    explanation="PARTIAL CLAIM at the serde data-model level: the hand-written Serialize emits exactly the present claims under the registered names with their own values; the Deserialize visitor, fed maps of up to 3 members (member names concrete per harness, null-ness and value symbolic) by a harness-defined MapAccess, ignores unknown members and order, rejects a duplicate of an already-set claim, accepts null-then-value, and otherwise assigns each claim the last value. The JSON text level (escapes, RFC 3339 / nanosecond formatting and parsing) is serde_json's and jiff's code and is not claimed; timestamp-valued members are offered only as null on the deserialize side.",
    functions=["paseto_json::RegisteredClaims::{serialize, deserialize}, RegisteredClaimsVisitor::visit_map, RegisteredClaimFieldVisitor"],
    bounds={"quick": "7 presence bits; maps of 0..2 members over 6 name combinations", "thorough": "27 name combinations (7 registered names, 3 unknown names incl. \"issuer\" and \"ex\"), names delivered as str and as bytes, up to 3 members"},
    outside=["JSON text (serde_json), RFC 3339 text (jiff), Json<T> wrappers (two-line delegations to serde_json)", "string values longer than 1 character"],
    models=["harness-defined serde Serializer / Deserializer / MapAccess (the serde data model)"], assumptions=["serde's data-model contract between Serialize/Deserialize impls and formats"])


# ------------------------------------------------------------------------------------------------
# thorough tier = quick tier + the thorough-only harnesses that have PASSED on this tree at least once
# (lib/validated.json, written by lib/mkvalidated.py from check logs).  A thorough-only harness without
# a recorded pass is built but not registered (tier "x"): it is listed in the evidence as such and
# never makes a check inconclusive.  VERIF_ALL_THOROUGH=1 runs them anyway (to validate more).
# ------------------------------------------------------------------------------------------------
import json as _json
_vf = os.path.join(os.path.dirname(os.path.abspath(__file__)), "validated.json")
UNVALIDATED = {}
if os.path.exists(_vf) and not os.environ.get("VERIF_ALL_THOROUGH"):
    _ok = set(tuple(x) for x in _json.load(open(_vf))["passed"])
    for _pid, _P in PROPS.items():
        for _h in getattr(_P, "harnesses", []) or []:
            if "q" not in _h.tiers and (_h.group, _h.name.split("::")[-1]) not in _ok:
                _h.tiers = "x"
                UNVALIDATED.setdefault(_pid, []).append("%s/%s" % (_h.group, _h.name))
