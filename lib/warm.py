import sys, re; sys.path.insert(0,'/verif/lib')
import kanirun, specs
g=specs.group(sys.argv[1]); g.materialize()
err=g.ensure_warm(sys.argv[2],['-Z','stubbing'] if g.stubbing else [])
if err:
    # print only error blocks
    out=[]; keep=False
    for line in err.splitlines():
        if line.startswith('error'): keep=True
        elif line.startswith('warning') or line.startswith('   Compiling'): keep=False
        if keep: out.append(line)
    print("\n".join(out)[-6000:])
else:
    print('warm ok', g.warm_s)
