"""Known findings: genuine defects recorded rather than repaired.  Never written at run time."""
import json, os, re

PATH = os.path.join(os.path.dirname(os.path.dirname(os.path.abspath(__file__))), "known_findings.json")


def load():
    if not os.path.exists(PATH):
        return {"findings": [], "fixed": []}
    return json.load(open(PATH))


def match(kf, prop, result, rep):
    """A finding suppresses a violation only if property, harness pattern, failed-assertion pattern and
    (when given) the replay's condition tag all match: a different failure of the same property is
    still reported."""
    for f in kf.get("findings", []):
        if f["property"] != prop:
            continue
        if not re.search(f["harness"], result["harness"]):
            continue
        descs = " | ".join(x["desc"] for x in result.get("failed", []))
        if f.get("assertion") and not re.search(f["assertion"], descs):
            continue
        if f.get("condition") and f["condition"] != rep.get("condition"):
            continue
        return f
    return None
