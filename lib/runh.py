"""ad-hoc: python3 lib/runh.py <group> <mode> <timeout> <workers> harness..."""
import sys; sys.path.insert(0,'/verif/lib')
import kanirun, specs, os
from concurrent.futures import ThreadPoolExecutor
g=specs.group(sys.argv[1]); g.materialize()
mode=sys.argv[2]; to=int(sys.argv[3]); w=int(sys.argv[4])
def run(h):
    m=mode
    if '@' in h: h,m=h.split('@')
    r=kanirun.run_job(g,h,mode=m,timeout_s=to, mem_gb=int(os.environ.get('RUNH_MEM','16')))
    print((h,r['class'], r['wall_s'], round(r['symex_s']), round(r['solver_s']), r['steps'], [f['desc'][:90]+' @'+f['loc'][-60:] for f in r.get('failed')][:6], [c['desc'] for c in r.get('unsat_covers')]), flush=True)
with ThreadPoolExecutor(w) as ex:
    list(ex.map(run,sys.argv[5:]))
