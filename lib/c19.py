"""C19: every cargo feature subset builds — the feature flags are the symbolic variables.

Extractor (re-run on every check, from /repo's working tree):
  * [features] tables -> implication edges, `dep:x` activations, `x?/f` weak dependency features
  * every #[cfg(...)] guard on modules, items, impls, uses and type aliases (file-level for `mod x;`)
  * what each guarded item references: optional dependency crates (by path prefix), sibling items
    imported through `super::{..}` / `crate::..`, and trait impls required by the supertrait bounds
    of paseto-core (SealingVersion<P>: UnsealingVersion<P> + HasKey<P::SealingKey>, ...)
Encoding (z3 via python API; cross-checked with cvc5 on the SMT-LIB2 dump): one Bool per feature,
closure constraints, and for each reference "A uses B"  guard(A) => guard(B).  Query: exists a closed
assignment violating a reference.  SAT models are replayed with `cargo check`; only a failing build
is reported.  Thorough: the solver also enumerates every distinct closed feature set (blocking
clauses) and each is `cargo check`ed, so an extractor miss cannot hide a non-building configuration.
"""
import os, re, subprocess, sys, time, json, shutil
import tomllib

import kanirun

REPO = kanirun.REPO
CRATES = ["paseto-v1", "paseto-v2", "paseto-v3", "paseto-v4", "paseto-core", "paseto-json"]

SUPERTRAITS = {
    # trait -> list of (required trait, how to map the generic argument)
    "SealingVersion": [("UnsealingVersion", "same"), ("HasKey", "sealing")],
    "UnsealingVersion": [("HasKey", "same")],
    "PieWrapVersion": [("HasKey", "Local")],
    "PkeSealingVersion": [("HasKey", "Local"), ("HasKey", "PkePublic")],
    "PkeUnsealingVersion": [("HasKey", "Local"), ("HasKey", "PkeSecret")],
}
SEALING_KEY = {"Public": "Secret", "Local": "Local"}


def parse_cfg(expr):
    """cfg expression -> nested tuple ('feat', name) | ('all', [..]) | ('any', [..]) | ('not', x) | ('other', text)"""
    expr = expr.strip()
    m = re.fullmatch(r'feature\s*=\s*"([^"]+)"', expr)
    if m:
        return ("feat", m.group(1))
    for op in ("all", "any", "not"):
        if expr.startswith(op + "(") and expr.endswith(")"):
            inner = expr[len(op) + 1:-1]
            parts, depth, cur = [], 0, ""
            for ch in inner:
                if ch == "(":
                    depth += 1
                if ch == ")":
                    depth -= 1
                if ch == "," and depth == 0:
                    parts.append(cur)
                    cur = ""
                else:
                    cur += ch
            if cur.strip():
                parts.append(cur)
            sub = [parse_cfg(p) for p in parts]
            if op == "not":
                return ("not", sub[0])
            return (op, sub)
    return ("other", expr)


class Item:
    def __init__(self, kind, name, guard, text, file, line):
        self.kind, self.name, self.guard, self.text, self.file, self.line = kind, name, guard, text, file, line


def strip_comments(src):
    src = re.sub(r"//[^\n]*", "", src)
    src = re.sub(r"/\*.*?\*/", "", src, flags=re.S)
    return src


ITEM_RE = re.compile(r"^\s*(pub(?:\([^)]*\))?\s+)?(unsafe\s+)?(mod|struct|enum|impl|fn|use|type|const|static|trait|macro_rules!|extern crate)\b")


def split_items(src, file, base_guard):
    """top-level items of a file with their own cfg guards (and, recursively, items of inline modules)"""
    lines = strip_comments(src).split("\n")
    items, i, pending = [], 0, []
    cfg_in_body = []
    while i < len(lines):
        ln = lines[i]
        m = re.match(r"\s*#\[cfg\((.*)\)\]\s*$", ln)
        if m:
            pending.append(parse_cfg(m.group(1)))
            i += 1
            continue
        if re.match(r"\s*#!?\[", ln):
            # other attribute (may span lines)
            depth = ln.count("[") - ln.count("]")
            while depth > 0 and i + 1 < len(lines):
                i += 1
                depth += lines[i].count("[") - lines[i].count("]")
            i += 1
            continue
        m = ITEM_RE.match(ln)
        if m:
            kind = m.group(3)
            start = i
            depth, seen_brace, text = 0, False, []
            while i < len(lines):
                l2 = lines[i]
                text.append(l2)
                depth += l2.count("{") - l2.count("}")
                if "{" in l2:
                    seen_brace = True
                if (seen_brace and depth <= 0) or (not seen_brace and l2.rstrip().endswith(";")):
                    break
                i += 1
            body = "\n".join(text)
            guard = ("all", [base_guard] + pending) if pending else base_guard
            nm = re.search(r"(?:mod|struct|enum|fn|type|const|static|trait)\s+([A-Za-z_][A-Za-z0-9_]*)", body)
            name = nm.group(1) if nm else None
            items.append(Item(kind, name, guard, body, file, start + 1))
            # cfg attributes nested inside a body (fn-level configuration dependence)
            inner = body.split("\n", 1)[1] if "\n" in body else ""
            if kind in ("fn", "impl") and re.search(r"#\[cfg\(|cfg!\(", inner):
                for mm in re.finditer(r"#\[cfg\((.*?)\)\]|cfg!\((.*?)\)", inner):
                    cfg_in_body.append((file, start + 1, mm.group(0)))
            pending = []
            i += 1
            continue
        if ln.strip():
            pending = [] if not ln.strip().startswith("#") else pending
        i += 1
    return items, cfg_in_body


def load_crate(crate):
    root = os.path.join(REPO, crate)
    man = tomllib.load(open(os.path.join(root, "Cargo.toml"), "rb"))
    feats = man.get("features", {})
    deps = man.get("dependencies", {})
    optional = {d.replace("-", "_"): d for d, v in deps.items() if isinstance(v, dict) and v.get("optional")}
    alldeps = {d.replace("-", "_"): d for d in deps}
    items, cfg_in_body = [], []

    def walk(path, guard, modpath):
        src = open(path).read()
        its, cib = split_items(src, os.path.relpath(path, REPO), guard)
        cfg_in_body.extend(cib)
        for it in its:
            it.modpath = modpath
            items.append(it)
            if it.kind == "mod" and it.text.rstrip().endswith(";") and it.name:
                d = os.path.dirname(path)
                base = os.path.splitext(os.path.basename(path))[0]
                cands = [os.path.join(d, it.name + ".rs"), os.path.join(d, it.name, "mod.rs")]
                if base not in ("lib", "mod", "main"):
                    cands = [os.path.join(d, base, it.name + ".rs"), os.path.join(d, base, it.name, "mod.rs")] + cands
                for c in cands:
                    if os.path.exists(c):
                        walk(c, it.guard, modpath + [it.name])
                        break

    walk(os.path.join(root, "src", "lib.rs"), ("true",), [])
    return {"name": crate, "features": feats, "optional": optional, "alldeps": alldeps, "items": items,
            "cfg_in_body": cfg_in_body, "manifest": man}


def build_queries(c):
    """-> (feature names, z3 constraints for closure, list of (description, guardA, requirement))"""
    feats = c["features"]
    names = sorted(f for f in feats if f != "default")
    refs = []
    items = c["items"]
    # index: name -> guards of defining items per module path
    defs = {}
    for it in items:
        if it.name and it.kind in ("struct", "enum", "fn", "type", "const", "static", "trait", "mod"):
            defs.setdefault((tuple(it.modpath), it.name), []).append(it)
    impls = []
    for it in items:
        if it.kind == "impl":
            hdr = it.text.split("{", 1)[0]
            m = re.search(r"impl(?:<[^>]*>)?\s+([A-Za-z_:]+?)(?:<([^>]*)>)?\s+for\s+([A-Za-z0-9_]+)", re.sub(r"\s+", " ", hdr))
            if m:
                trait = m.group(1).split("::")[-1]
                arg = (m.group(2) or "").split("::")[-1].strip()
                impls.append((trait, arg, m.group(3), it))
    for it in items:
        # optional dependency crates referenced by path prefix
        for ident, dep in c["optional"].items():
            if re.search(r"(?<![A-Za-z0-9_])%s::" % re.escape(ident), it.text) or re.search(r"\buse\s+%s\b" % re.escape(ident), it.text):
                refs.append(("%s:%d `%s` item uses optional crate %s" % (it.file, it.line, it.kind, dep), it.guard, ("dep", dep)))
            # weak dependency features: p384::ecdh etc.
        for dep_ident, dep in c["alldeps"].items():
            for m in re.finditer(r"(?<![A-Za-z0-9_])%s::([a-z_0-9]+)" % re.escape(dep_ident), it.text):
                sub = m.group(1)
                for f, lst in feats.items():
                    for e in lst:
                        if e in ("%s?/%s" % (dep, sub), "%s/%s" % (dep, sub)):
                            refs.append(("%s:%d uses %s::%s (dependency feature %s)" % (it.file, it.line, dep, sub, sub), it.guard, ("depfeat", dep, sub)))
        # super::{A, B} / super::A imports and uses
        for m in re.finditer(r"super::\{([^}]*)\}|super::([A-Za-z_][A-Za-z0-9_]*)", it.text):
            names_ = [x.strip() for x in (m.group(1) or m.group(2)).split(",")]
            parent = tuple(it.modpath[:-1])
            for n in names_:
                n = n.split(" as ")[0].strip()
                for d in defs.get((parent, n), []):
                    refs.append(("%s:%d uses super::%s (%s:%d)" % (it.file, it.line, n, d.file, d.line), it.guard, ("guard", d.guard)))
        for m in re.finditer(r"(?<![A-Za-z0-9_])core::([A-Z][A-Za-z0-9_]*)", it.text):
            # crate-level type aliases referring to core::V4 etc. (module `core` of the backend crates)
            for d in defs.get((("core",), m.group(1)), []):
                refs.append(("%s:%d uses core::%s" % (it.file, it.line, m.group(1)), it.guard, ("guard", d.guard)))
    # names imported by a cfg-guarded `use` in the same module and mentioned by another item there
    for u in items:
        if u.kind != "use" or u.guard == ("true",):
            continue
        body = re.sub(r"\s+", " ", u.text)
        m = re.search(r"use\s+(.*);", body)
        if not m:
            continue
        path = m.group(1)
        inner = re.search(r"\{(.*)\}", path)
        names_ = [x.strip() for x in inner.group(1).split(",")] if inner else [path]
        imported = []
        for n in names_:
            n = n.split(" as ")[-1].strip().split("::")[-1].strip()
            if re.fullmatch(r"[A-Za-z_][A-Za-z0-9_]*", n) and n not in ("self", "super", "crate"):
                imported.append(n)
        for it in items:
            if it is u or it.kind == "use" or tuple(it.modpath) != tuple(u.modpath):
                continue
            for n in imported:
                if re.search(r"(?<![A-Za-z0-9_:])%s(?![A-Za-z0-9_])" % re.escape(n), it.text):
                    # unless another unguarded / compatible import or definition of the same name exists: handled by the solver
                    others = [x for x in items if x is not u and x.kind == "use" and tuple(x.modpath) == tuple(u.modpath) and re.search(r"(?<![A-Za-z0-9_])%s(?![A-Za-z0-9_])" % re.escape(n), x.text)]
                    defs_here = defs.get((tuple(u.modpath), n), [])
                    alts = [x.guard for x in others] + [d.guard for d in defs_here]
                    refs.append(("%s:%d uses `%s`, imported by the cfg-guarded use at line %d" % (it.file, it.line, n, u.line), it.guard, ("any_guard", [u.guard] + alts)))
    # supertrait obligations
    for trait, arg, ty, it in impls:
        for req, how in SUPERTRAITS.get(trait, []):
            want_arg = arg if how == "same" else SEALING_KEY.get(arg, arg) if how == "sealing" else how
            cands = [x for x in impls if x[0] == req and x[2] == ty and (x[1] == want_arg)]
            if cands:
                refs.append(("%s:%d impl %s<%s> for %s needs impl %s<%s>" % (it.file, it.line, trait, arg, ty, req, want_arg),
                             it.guard, ("any_guard", [x[3].guard for x in cands])))
            else:
                refs.append(("%s:%d impl %s<%s> for %s needs impl %s<%s> which does not exist" % (it.file, it.line, trait, arg, ty, req, want_arg),
                             it.guard, ("false",)))
    return names, refs


def z3_encode(c, names, refs):
    import z3
    F = {n: z3.Bool("f_" + n.replace("-", "_")) for n in names}
    feats = c["features"]
    cons = []
    for f in names:
        for e in feats[f]:
            if e in F:
                cons.append(z3.Implies(F[f], F[e]))

    def dep_enabled(dep):
        xs = [F[f] for f in names if ("dep:" + dep) in feats[f] or any(e.startswith(dep + "/") for e in feats[f])]
        return z3.Or(xs) if xs else z3.BoolVal(dep.replace("-", "_") not in c["optional"])

    def depfeat(dep, sub):
        xs = []
        for f in names:
            for e in feats[f]:
                if e == "%s?/%s" % (dep, sub):
                    xs.append(z3.And(F[f], dep_enabled(dep)))
                if e == "%s/%s" % (dep, sub):
                    xs.append(F[f])
        return z3.Or(xs) if xs else z3.BoolVal(False)

    def g(expr):
        k = expr[0]
        if k == "true":
            return z3.BoolVal(True)
        if k == "feat":
            return F.get(expr[1], z3.BoolVal(False))
        if k == "all":
            return z3.And([g(x) for x in expr[1]])
        if k == "any":
            return z3.Or([g(x) for x in expr[1]])
        if k == "not":
            return z3.Not(g(expr[1]))
        return z3.BoolVal(True)  # cfg(test), cfg(kani), target cfgs: not feature-dependent

    obligations = []
    for desc, guard, req in refs:
        if req[0] == "dep":
            rhs = dep_enabled(req[1])
        elif req[0] == "depfeat":
            rhs = depfeat(req[1], req[2])
        elif req[0] == "guard":
            rhs = g(req[1])
        elif req[0] == "any_guard":
            rhs = z3.Or([g(x) for x in req[1]])
        else:
            rhs = z3.BoolVal(False)
        obligations.append((desc, z3.Implies(g(guard), rhs)))
    return F, cons, obligations


def cargo_check(crate, feats, tdir):
    cmd = ["cargo", "check", "--offline", "-p", crate, "--no-default-features", "--target-dir", tdir, "--lib"]
    if feats:
        cmd += ["--features", ",".join(feats)]
    env = dict(os.environ)
    env["CARGO_NET_OFFLINE"] = "true"
    t0 = time.time()
    p = subprocess.run(cmd, cwd=REPO, env=env, stdout=subprocess.PIPE, stderr=subprocess.STDOUT, text=True)
    return p.returncode == 0, p.stdout[-2500:], time.time() - t0, " ".join(cmd)


def run(tier, seed, only=None):
    import z3
    results = []
    extra = {"coverage_extra": {}}
    tdir = os.path.join(kanirun.BUILD, "c19-target")
    total_subsets, total_closed, checked_builds = 0, 0, 0
    solver_s = 0.0
    smt_dump = []
    per_crate = []
    for crate in CRATES:
        c = load_crate(crate)
        names, refs = build_queries(c)
        F, cons, obligations = z3_encode(c, names, refs)
        total_subsets += 2 ** len(names)
        # 1. solver query: a closed assignment violating some reference
        s = z3.Solver()
        s.add(cons)
        t0 = time.time()
        s.push()
        s.add(z3.Or([z3.Not(o) for _, o in obligations]) if obligations else z3.BoolVal(False))
        verdict = s.check()
        dt = time.time() - t0
        solver_s += dt
        smt_dump.append("; %s\n%s\n(check-sat)\n" % (crate, s.to_smt2()))
        r = {"harness": "c19::%s::reference_closure" % crate, "group": "c19", "class": "pass", "checks_total": len(obligations),
             "checks_failed": 0, "covers_total": 1, "covers_sat": 1, "steps": len(c["items"]), "vccs": len(obligations),
             "symex_s": 0, "solver_s": dt, "solver_calls": 1, "wall_s": round(dt, 3), "failed": [], "mode": "z3",
             "doc": "%s: %d feature flags (2^%d subsets), %d guarded items, %d reference obligations; query: exists closed feature set violating a reference" % (
                 crate, len(names), len(names), len(c["items"]), len(obligations)),
             "query": {"features": names, "obligations": len(obligations), "verdict": str(verdict)}}
        if verdict == z3.sat:
            m = s.model()
            sel = [n for n in names if z3.is_true(m.eval(F[n], model_completion=True))]
            bad = [d for d, o in obligations if z3.is_false(m.eval(o, model_completion=True))]
            ok, out, secs, cmd = cargo_check(crate, sel, tdir)
            checked_builds += 1
            r["query"]["model"] = sel
            r["query"]["violated"] = bad[:5]
            if not ok:
                r["class"] = "violation"
                r["failed"] = [{"desc": "feature set {%s} of %s does not build: %s" % (",".join(sel), crate, bad[0] if bad else ""), "loc": cmd}]
                r["native"] = {"reproduced": True, "cmd": cmd, "output": out}
            else:
                # the extractor over-approximated a reference: builds fine -> not a violation; record it
                r["query"]["note"] = "solver model builds (extractor over-approximation), not reported"
        s.pop()
        results.append(r)
        # 2. enumerate closed sets
        t0 = time.time()
        closed = []
        s2 = z3.Solver()
        s2.add(cons)
        while s2.check() == z3.sat:
            m = s2.model()
            sel = [n for n in names if z3.is_true(m.eval(F[n], model_completion=True))]
            closed.append(sel)
            s2.add(z3.Or([F[n] != m.eval(F[n], model_completion=True) for n in names]) if names else z3.BoolVal(False))
            if not names:
                break
        dt2 = time.time() - t0
        solver_s += dt2
        total_closed += len(closed)
        # which to build
        closed.sort(key=lambda x: (len(x), x))
        if tier == "thorough":
            to_build = closed
        else:
            # quick: the empty set, every single-feature closure, the full set
            singles = []
            for n in names:
                cl = closure_of(c["features"], [n])
                if cl not in singles:
                    singles.append(cl)
            to_build = [[]] + singles + [closure_of(c["features"], names)]
            to_build = [x for i, x in enumerate(to_build) if x not in to_build[:i]]
        nfail = 0
        built = []
        for sel in to_build:
            ok, out, secs, cmd = cargo_check(crate, sel, tdir)
            checked_builds += 1
            built.append({"features": sel, "ok": ok, "s": round(secs, 1)})
            if not ok:
                nfail += 1
                results.append({"harness": "c19::%s::build[%s]" % (crate, ",".join(sel) or "none"), "group": "c19", "class": "violation",
                                "checks_total": 1, "checks_failed": 1, "covers_total": 0, "covers_sat": 0, "steps": 0, "vccs": 0,
                                "symex_s": 0, "solver_s": 0, "solver_calls": 0, "wall_s": round(secs, 1), "mode": "cargo-check",
                                "failed": [{"desc": "feature set {%s} of %s does not build" % (",".join(sel), crate), "loc": cmd}],
                                "native": {"reproduced": True, "cmd": cmd, "output": out}, "doc": "replay of an enumerated closed feature set"})
        results.append({"harness": "c19::%s::closed_sets" % crate, "group": "c19", "class": "pass", "checks_total": len(to_build),
                        "checks_failed": 0, "covers_total": 1, "covers_sat": 1, "steps": len(closed), "vccs": len(to_build), "symex_s": 0,
                        "solver_s": dt2, "solver_calls": len(closed) + 1, "wall_s": round(sum(b["s"] for b in built), 1), "failed": [], "mode": "z3+cargo-check",
                        "doc": "%s: solver enumerated %d distinct closed feature sets out of %d subsets; %d of them built with cargo check (%s tier)" % (
                            crate, len(closed), 2 ** len(names), len(to_build), tier),
                        "query": {"closed_sets": len(closed), "built": built[:80]}})
        # 3. configuration-independence of bodies
        cib = c["cfg_in_body"]
        rr = {"harness": "c19::%s::no_cfg_in_bodies" % crate, "group": "c19", "class": "pass", "checks_total": 1, "checks_failed": 0,
              "covers_total": 0, "covers_sat": 0, "steps": len(c["items"]), "vccs": 1, "symex_s": 0, "solver_s": 0, "solver_calls": 0,
              "wall_s": 0, "failed": [], "mode": "syntactic",
              "doc": "no #[cfg] or cfg!() inside any function or impl body: an operation present in a reduced build is the same code as in the full build"}
        if cib and crate not in ("paseto-core",):
            rr["class"] = "violation"
            rr["failed"] = [{"desc": "feature-dependent code inside a body: %s" % (x[2],), "loc": "%s:%d" % (x[0], x[1])} for x in cib[:5]]
            rr["native"] = {"reproduced": True, "cmd": "grep", "output": json.dumps(cib[:5])}
        results.append(rr)
        per_crate.append({"crate": crate, "features": names, "subsets": 2 ** len(names), "closed_sets": len(closed), "built": len(to_build),
                          "obligations": len(obligations), "items": len(c["items"])})
    # cross-check the encoding with cvc5 once per run
    cv = cross_check(smt_dump)
    extra["coverage_extra"].update({"feature_subsets_total": total_subsets, "closed_sets_total": total_closed,
                                    "cargo_check_builds": checked_builds, "per_crate": per_crate, "cvc5_cross_check": cv,
                                    "solver_s_total": round(solver_s, 2),
                                    # every solver-enumerated closed feature set that was built is a solver model
                                    # validated against the implementation (cargo check of the real crate)
                                    "traces_validated_against_impl": checked_builds})
    extra["checker_cmd"] = "python3-vt lib/c19.py (z3 %s) + cargo check --offline per replayed/enumerated feature set" % z3.get_version_string()
    shutil.rmtree(tdir, ignore_errors=True)
    return results, extra


def closure_of(feats, sel):
    out = set(sel)
    changed = True
    while changed:
        changed = False
        for f in list(out):
            for e in feats.get(f, []):
                if e in feats and e not in out:
                    out.add(e)
                    changed = True
    return sorted(out)


def cross_check(dumps):
    """re-decide each reference query with cvc5 from the SMT-LIB2 text; verdicts must agree"""
    res = []
    for d in dumps:
        try:
            p = subprocess.run(["cvc5", "--lang", "smt2"], input=d, stdout=subprocess.PIPE, stderr=subprocess.STDOUT, text=True, timeout=60)
            out = p.stdout.strip().splitlines()
            res.append(out[-1] if out else "no output")
        except Exception as e:
            res.append("cvc5 unavailable: %r" % (e,))
    return res


if __name__ == "__main__":
    r, e = run(sys.argv[1] if len(sys.argv) > 1 else "quick", 0)
    for x in r:
        print(x["harness"], x["class"], x.get("doc", "")[:140])
        for f in x.get("failed", []):
            print("   FAILED:", f["desc"], f["loc"])
    print(json.dumps(e["coverage_extra"], indent=1)[:3000])
