#!/bin/bash
# usage: test_seed.sh <seed-id> <property> [--only <substr>] [--tier t]
# Runs a check against a scratch worktree of /repo with the seeded change applied (VERIF_REPO), in
# its own build root, so that it can run while other checks use /repo itself.
id=$1; prop=$2; shift 2
W=/tmp/mut-$id
git -C /repo worktree remove --force $W 2>/dev/null
git -C /repo worktree add -q $W HEAD || exit 3
git -C $W apply /verif/seeded/$id/patch.diff || { echo "patch does not apply"; exit 4; }
export VERIF_REPO=$W VERIF_BUILD=/verif/.build-mut-$id VERIF_REPLAY_TARGET=/verif/.build-replay-target
cd /verif
./check $prop --no-evidence "$@" 2>&1 | grep -v "^WARNING conda"
rc=${PIPESTATUS[0]}
echo "SEED $id property=$prop exit=$rc"
git -C /repo worktree remove --force $W
rm -rf $VERIF_BUILD
exit $rc
