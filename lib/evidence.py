"""Evidence writer: everything here is parsed from this run's Kani/CBMC (or z3) output."""
import json, os, time

ROOT = os.path.dirname(os.path.dirname(os.path.abspath(__file__)))


def write(prop, tier, seed, P, results, extra, wall, nviol, known, faults):
    os.makedirs(os.path.join(ROOT, "evidence"), exist_ok=True)
    passed = [r for r in results if r["class"] == "pass"]
    obligations = sum(r.get("checks_total", 0) + r.get("covers_total", 0) for r in results)
    discharged = sum((r.get("checks_total", 0) - r.get("checks_failed", 0)) + r.get("covers_sat", 0)
                     for r in results if r["class"] == "pass")
    steps = sum(r.get("steps", 0) for r in results)
    vccs = sum(r.get("vccs", 0) for r in results)
    samples = []
    for r in results[:400]:
        s = {"harness": r["harness"], "group": r.get("group"), "result": r["class"],
             "checks": r.get("checks_total", 0), "covers": "%d/%d" % (r.get("covers_sat", 0), r.get("covers_total", 0)),
             "program_steps": r.get("steps", 0), "vccs": r.get("vccs", 0),
             "symex_s": round(r.get("symex_s", 0), 2), "solver_s": round(r.get("solver_s", 0), 2),
             "wall_s": r.get("wall_s", 0), "mode": r.get("mode"), "doc": r.get("doc", "")}
        if r.get("stubs"):
            s["stubs"] = r["stubs"]
        if r.get("failed"):
            s["failed_checks"] = [f["desc"] + " @ " + f["loc"] for f in r["failed"][:5]]
        if r.get("replay"):
            s["replay"] = {k: r["replay"].get(k) for k in ("reproduced", "path", "detail", "condition")}
        if r.get("query"):
            s["query"] = r["query"]
        samples.append(s)
    cov = {
        "states": max(steps, 0), "transitions": max(vccs, 0),
        "traces_validated_against_impl": sum(1 for r in results if r.get("replay", {}).get("reproduced")),
        "samples": samples,
        "obligations": obligations, "discharged": discharged,
        "checker_cmd": extra.get("checker_cmd", "cargo kani (CBMC 6.11.0 / CaDiCaL) per harness, see samples[].harness"),
        "trusted_base": extra.get("trusted_base", ["rustc (Kani's pinned nightly) MIR", "Kani 0.68 codegen", "CBMC 6.11 symex + CaDiCaL"]),
        "evaluations": len(results), "distinct_nontrivial": len(passed),
        "rule": "one evaluation = one solver-decided harness (all inputs inside its stated bound); counted as non-trivial only if the verdict is SUCCESSFUL, every unwinding assertion holds and every reachability witness (kani::cover) is SATISFIED",
        "explanation": extra.get("explanation", P.explanation),
        "exhaustive": False,
        "functions_encoded": extra.get("functions", P.functions),
        "encoded_sources": extra.get("encoded_sources", []),
        "bounds": extra.get("bounds", P.bounds.get(tier, P.bounds.get("quick", ""))),
        "outside_bound": extra.get("outside", P.outside),
        "models_and_stubs": extra.get("models", P.models),
        "queries_discharged": sum(r.get("solver_calls", 0) for r in results),
        "symex_s_total": round(sum(r.get("symex_s", 0) for r in results), 1),
        "solver_s_total": round(sum(r.get("solver_s", 0) for r in results), 1),
        "harness_wall_s_total": round(sum(r.get("wall_s", 0) for r in results), 1),
        "witnesses_satisfied": sum(r.get("covers_sat", 0) for r in results),
        "witnesses_total": sum(r.get("covers_total", 0) for r in results),
        "known_findings_hit": [h["what"] for h, _ in known],
        "inconclusive": [{"harness": r["harness"], "reason": why} for r, why in faults],
    }
    if cov["states"] < 1:
        cov["states"] = max(1, len(results))
    if cov["transitions"] < 1:
        cov["transitions"] = max(1, obligations)
    cov.update(extra.get("coverage_extra", {}))
    ev = {"property_id": prop, "tier": tier, "seed": seed, "level": P.level, "coverage": cov,
          "assumptions": extra.get("assumptions", P.assumptions), "wall_s": round(wall, 1), "violations": nviol,
          "generated_at": time.strftime("%Y-%m-%dT%H:%M:%SZ", time.gmtime())}
    with open(os.path.join(ROOT, "evidence", prop + ".json"), "w") as f:
        json.dump(ev, f, indent=1)
